"""vpool - a controlled process pool with the interface cobrapy uses (DESIGN §2.3).

`install(chooser)` rebinds `ProcessPool` in cobra.flux_analysis.variability, .deletion and
cobra.sampling.optgp to `VPool`.  Each virtual worker is a real os.fork() child created at pool
construction (copy-on-write semantics, inherited open contexts), driven in lock-step over
pipes.  Which worker takes which chunk and the order in which finished chunks are delivered
to the parent's loop are decided by `chooser.choose(n, label)`.

Chunks are consecutive slices of `chunksize` exactly as multiprocessing.Pool._get_tasks makes
them; a worker processes its chunks in queue order; workers never talk to the parent while
running, so (assignment, delivery order) pairs are the observable schedules of the real pool.
"""
import os
import pickle
import select
import struct
import time

READ_TIMEOUT = 120.0


def _send(fd, obj):
    data = pickle.dumps(obj, protocol=4)
    data = struct.pack("<I", len(data)) + data
    view = memoryview(data)
    while view:
        n = os.write(fd, view)
        view = view[n:]


def _recv(fd, timeout=READ_TIMEOUT):
    def exact(n):
        buf = b""
        deadline = time.time() + timeout
        while len(buf) < n:
            r, _, _ = select.select([fd], [], [], max(0.0, deadline - time.time()))
            if not r:
                raise TimeoutError("virtual worker did not answer")
            chunk = os.read(fd, n - len(buf))
            if not chunk:
                raise EOFError("virtual worker died")
            buf += chunk
        return buf

    (n,) = struct.unpack("<I", exact(4))
    return pickle.loads(exact(n))


class _ForkWorker:
    def __init__(self, index, initializer, initargs, keep_fds=()):
        p2c_r, p2c_w = os.pipe()
        c2p_r, c2p_w = os.pipe()
        pid = os.fork()
        if pid == 0:  # child
            try:
                os.close(p2c_w)
                os.close(c2p_r)
                for fd in keep_fds:
                    try:
                        os.close(fd)
                    except OSError:
                        pass
                if initializer is not None:
                    initializer(*initargs)
                while True:
                    msg = _recv(p2c_r, timeout=3600)
                    if msg[0] == "stop":
                        break
                    _, func, chunk = msg
                    out = []
                    for item in chunk:
                        try:
                            out.append(("ok", func(item)))
                        except BaseException as exc:  # delivered to the parent like the real pool does
                            out.append(("err", exc))
                    try:
                        _send(c2p_w, out)
                    except Exception as exc:
                        _send(c2p_w, [("err", RuntimeError("unpicklable result: %r" % (exc,)))])
            except BaseException:
                pass
            finally:
                os._exit(0)
        os.close(p2c_r)
        os.close(c2p_w)
        self.pid, self.wfd, self.rfd, self.index = pid, p2c_w, c2p_r, index

    def run(self, func, chunk):
        _send(self.wfd, ("run", func, chunk))
        return _recv(self.rfd)

    def stop(self):
        try:
            _send(self.wfd, ("stop",))
        except OSError:
            pass
        for fd in (self.wfd, self.rfd):
            try:
                os.close(fd)
            except OSError:
                pass
        try:
            deadline = time.time() + 5
            while time.time() < deadline:
                pid, _ = os.waitpid(self.pid, os.WNOHANG)
                if pid:
                    return
                time.sleep(0.002)
            os.kill(self.pid, 9)
            os.waitpid(self.pid, 0)
        except (ChildProcessError, ProcessLookupError):
            pass


class Chooser:
    """Records choice points; replays a prefix of choices, then takes choice 0."""

    def __init__(self, prefix=()):
        self.prefix = list(prefix)
        self.points = []  # (n_alternatives, label)
        self.choices = []

    def choose(self, n, label=""):
        i = len(self.choices)
        if i < len(self.prefix):
            c = self.prefix[i]
            if c >= n:
                raise RuntimeError(f"replay diverged at choice {i} ({label}): {c} >= {n}")
        else:
            c = 0
        self.points.append((n, label))
        self.choices.append(c)
        return c


_state = {"chooser": None, "log": None}


class _Star:
    def __init__(self, func):
        self.func = func

    def __call__(self, args):
        return self.func(*args)


class _Apply:
    def __init__(self, func, kwds):
        self.func, self.kwds = func, kwds

    def __call__(self, args):
        return self.func(*args, **self.kwds)


class _Result:
    def __init__(self, value, exc):
        self._value, self._exc = value, exc

    def get(self, timeout=None):
        if self._exc is not None:
            raise self._exc
        return self._value

    def wait(self, timeout=None):
        pass

    def ready(self):
        return True

    def successful(self):
        return self._exc is None


class VPool:
    def __init__(self, processes=None, initializer=None, initargs=(), maxtasksperchild=None, **kwargs):
        self.n = processes or 1
        keep = []
        self.workers = []
        for i in range(self.n):
            w = _ForkWorker(i, initializer, initargs, keep_fds=tuple(keep))
            keep += [w.wfd, w.rfd]
            self.workers.append(w)
        self.used = 0  # workers used so far (unused ones are interchangeable)
        self.closed = False
        if _state["log"] is not None:
            _state["log"].append(("pool", self.n))

    # -- scheduling ------------------------------------------------------------------
    def _schedule(self, func, items, chunksize):
        ch = _state["chooser"]
        items = list(items)
        chunksize = max(1, chunksize or 1)
        chunks = [items[i:i + chunksize] for i in range(0, len(items), chunksize)]
        assignment = []
        per_worker = {}
        for k, chunk in enumerate(chunks):
            options = list(range(min(self.used + 1, self.n)))
            # canonical order: default = round-robin-like "next fresh worker, else worker k mod n"
            pref = self.used if self.used < self.n else k % self.n
            options.sort(key=lambda w: (w != pref, w))
            w = options[ch.choose(len(options), f"chunk{k}->worker")]
            if w == self.used:
                self.used += 1
            assignment.append(w)
            per_worker.setdefault(w, []).append(k)
        # execute: each worker processes its chunks in queue order (workers are independent)
        results = {}
        for w, ks in per_worker.items():
            for k in ks:
                results[k] = self.workers[w].run(func, chunks[k])
        if _state["log"] is not None:
            _state["log"].append(("assignment", tuple(assignment), len(chunks), chunksize))
        return chunks, assignment, per_worker, results

    def imap_unordered(self, func, iterable, chunksize=1):
        chunks, assignment, per_worker, results = self._schedule(func, iterable, chunksize)
        ch = _state["chooser"]
        pending = {w: list(ks) for w, ks in per_worker.items()}
        order = []
        while any(pending.values()):
            heads = sorted(ks[0] for ks in pending.values() if ks)
            k = heads[ch.choose(len(heads), "deliver")]
            for ks in pending.values():
                if ks and ks[0] == k:
                    ks.pop(0)
            order.append(k)
            for status, value in results[k]:
                if status == "err":
                    raise value
                yield value
        if _state["log"] is not None:
            _state["log"].append(("delivery", tuple(order)))

    def imap(self, func, iterable, chunksize=1):
        chunks, assignment, per_worker, results = self._schedule(func, iterable, chunksize)
        for k in range(len(chunks)):
            for status, value in results[k]:
                if status == "err":
                    raise value
                yield value

    def map(self, func, iterable, chunksize=None):
        items = list(iterable)
        if chunksize is None:
            chunksize, extra = divmod(len(items), self.n * 4)
            if extra:
                chunksize += 1
        return list(self.imap(func, items, chunksize))

    # the rest of the multiprocessing.Pool calling interface, in terms of the calls above (a library that switches to
    # one of them keeps the seam)
    def starmap(self, func, iterable, chunksize=None):
        return self.map(_Star(func), iterable, chunksize)

    def apply(self, func, args=(), kwds=None):
        return self.map(_Apply(func, kwds or {}), [tuple(args)], 1)[0]

    def apply_async(self, func, args=(), kwds=None, callback=None, error_callback=None):
        try:
            value = self.apply(func, args, kwds)
        except Exception as exc:  # delivered when the caller asks for the result, as the real pool does
            if error_callback:
                error_callback(exc)
            return _Result(None, exc)
        if callback:
            callback(value)
        return _Result(value, None)

    def map_async(self, func, iterable, chunksize=None, callback=None, error_callback=None):
        try:
            value = self.map(func, iterable, chunksize)
        except Exception as exc:
            if error_callback:
                error_callback(exc)
            return _Result(None, exc)
        if callback:
            callback(value)
        return _Result(value, None)

    # -- life cycle ------------------------------------------------------------------
    def close(self):
        if not self.closed:
            self.closed = True
            for w in self.workers:
                w.stop()

    def join(self):
        pass

    def terminate(self):
        self.close()

    def __enter__(self):
        return self

    def __exit__(self, *exc):
        self.close()
        return False

    def __del__(self):
        try:
            self.close()
        except Exception:
            pass


_originals = []   # (module, attribute name, original object)


def rebind_pool_class(replacement):
    """Rebind every name inside the cobra package that refers to cobra's ProcessPool class to `replacement`.

    The seam is the *class*, wherever the library imports it (`from ..util import ProcessPool` binds the name in
    the importing module), so that moving the import or the call site does not disable the seam.  Returns the
    number of names rebound; the originals are restored by `restore_pool_class`."""
    import sys

    import cobra.flux_analysis.deletion  # noqa: F401  (make sure the users of the pool are imported)
    import cobra.flux_analysis.variability  # noqa: F401
    import cobra.sampling.optgp  # noqa: F401
    import cobra.util.process_pool as PP

    target = PP.ProcessPool
    n = 0
    for name, mod in list(sys.modules.items()):
        if mod is None or not (name == "cobra" or name.startswith("cobra.")):
            continue
        for attr, val in list(vars(mod).items()):
            if val is target:
                _originals.append((mod, attr, val))
                setattr(mod, attr, replacement)
                n += 1
    return n


def restore_pool_class():
    while _originals:
        mod, attr, val = _originals.pop()
        setattr(mod, attr, val)


def install(chooser, log=None):
    _state["chooser"] = chooser
    _state["log"] = log
    if not _originals:
        if rebind_pool_class(VPool) == 0:
            raise RuntimeError("vpool seam: no reference to cobra.util.process_pool.ProcessPool found in the cobra package")


def uninstall():
    restore_pool_class()
    _state["chooser"] = None
    _state["log"] = None


def explore(body, bound, max_runs=None):
    """Stateless DFS over choice sequences with at most `bound` deviations from choice 0.

    body(chooser) -> observation (must be deterministic for a given choice sequence).
    Returns list of (choices, points, observation)."""
    out = []
    stack = [()]
    seen = set()
    while stack:
        prefix = stack.pop()
        if prefix in seen:
            continue
        seen.add(prefix)
        ch = Chooser(prefix)
        obs = body(ch)
        out.append((tuple(ch.choices), list(ch.points), obs))
        if max_runs and len(out) >= max_runs:
            break
        dev = sum(1 for c in prefix if c != 0)
        if dev >= bound:
            continue
        for i in range(len(prefix), len(ch.points)):
            n, _ = ch.points[i]
            for alt in range(1, n):
                stack.append(tuple(ch.choices[:i]) + (alt,))
    return out
