"""Origins: the same model reached by different public routes (DESIGN §8.10).

`derive(model, origin)` takes a fully prepared model (objective and direction set) and returns a model that, by the
properties C03/C10/C11/C12/C13, means exactly the same thing - a copy, a round trip through a file format, the model
itself after a rolled-back context, after removing and re-adding everything, after a solver switch there and back,
after every read-only observer ran, after analyses ran, inside an open user context.  E2 harnesses run a sub-family
of their inputs from every origin: the behaviour they check must not depend on how the model came to be.

A failure of `derive` itself (the route raises, or loses the objective) is not judged here - those routes have their
own checks (C03, C10, C11, C12); `derive` then raises `OriginUnavailable` and the caller counts and skips the case.
"""
import copy
import io
import pickle
import warnings

ORIGINS = ("copy", "deepcopy", "pickle", "json", "sbml", "restored", "readded", "switched", "renamed", "observed",
           "analysed", "in_context", "observed_copy")


class OriginUnavailable(Exception):
    pass


def _objective(model):
    from cobra.util.solver import linear_reaction_coefficients

    return {r.id: c for r, c in linear_reaction_coefficients(model).items()}, model.objective_direction


def _set_objective(model, coefs, direction):
    model.objective = {model.reactions.get_by_id(r): c for r, c in coefs.items()}
    model.objective_direction = direction


def _user_items(model):
    """Solver rows and columns that are neither steady-state rows nor flux variables (what the user or a helper added)."""
    from . import observe

    canon = observe.lp_canonical(observe.raw_lp(model))
    mets = {m.id for m in model.metabolites}
    rvars = {r.id for r in model.reactions} | {r.reverse_id for r in model.reactions}
    return (tuple(c for c in canon[0] if c[0] not in rvars), tuple(r for r in canon[1] if r[0] not in mets))


def derive(model, origin):
    coefs, direction = _objective(model)
    try:
        user_before = _user_items(model)
    except Exception:
        user_before = None
    try:
        with warnings.catch_warnings():
            warnings.simplefilter("ignore")
            out = _derive(model, origin, coefs, direction)
        got = _objective(out)
    except OriginUnavailable:
        raise
    except Exception as exc:  # the route itself failed: judged by C03/C10/C11/C12, not here
        raise OriginUnavailable(f"{origin}: {type(exc).__name__}: {exc}")
    if got != (coefs, direction):
        raise OriginUnavailable(f"{origin}: objective {got} instead of {(coefs, direction)}")
    if sorted(r.id for r in out.reactions) != sorted(r.id for r in model.reactions):
        raise OriginUnavailable(f"{origin}: reaction set differs")
    if user_before is not None and (user_before[0] or user_before[1]):
        # a model with user-level constraints or variables: the route must have carried them along unchanged (file
        # formats do not hold them; removing a reaction strips its coefficients from them - KF-C03-1); otherwise the
        # derived model is a different model and nothing can be concluded from it here
        try:
            user_after = _user_items(out)
        except Exception as exc:
            raise OriginUnavailable(f"{origin}: solver problem unreadable: {exc!r}")
        if user_after != user_before:
            raise OriginUnavailable(f"{origin}: user-level constraints/variables differ after the route")
    return out


def _derive(model, origin, coefs, direction):
    if origin == "fresh":
        return model
    if origin == "copy":
        return model.copy()
    if origin == "deepcopy":
        return copy.deepcopy(model)
    if origin == "pickle":
        return pickle.loads(pickle.dumps(model))
    if origin == "json":
        from cobra.io import from_json, to_json

        m2 = from_json(to_json(model))
        m2.solver = model.problem.__name__.split(".")[-1].replace("_interface", "")
        _set_objective(m2, coefs, direction)  # the dict formats do not carry the direction (KF-C11-1)
        return m2
    if origin == "sbml":
        from cobra.io import read_sbml_model, write_sbml_model

        buf = io.StringIO()
        write_sbml_model(model, buf)
        m2 = read_sbml_model(buf.getvalue())
        m2.solver = model.problem.__name__.split(".")[-1].replace("_interface", "")
        return m2
    if origin == "restored":
        # everything removed inside a context that is rolled back
        with model:
            model.remove_reactions(list(model.reactions))
            model.remove_metabolites(list(model.metabolites))
        return model
    if origin == "readded":
        rs = list(model.reactions)
        model.remove_reactions(rs, remove_orphans=True)
        model.add_reactions(rs)
        _set_objective(model, coefs, direction)
        return model
    if origin == "switched":
        here = model.problem.__name__.split(".")[-1].replace("_interface", "")
        model.solver = "glpk_exact" if here == "glpk" else "glpk"
        model.solver = here
        return model
    if origin == "renamed":
        for r in list(model.reactions):
            old = r.id
            r.id = old + "_tmp"
            r.id = old
        for m in list(model.metabolites):
            old = m.id
            m.id = old + "_tmp"
            m.id = old
        model.repair()
        return model
    if origin == "observed":
        from . import prehistory

        return prehistory.observe_everything(model)
    if origin == "observed_copy":
        # two routes in a row: whatever the observers made the model remember travels (or must not travel) with the copy
        from . import prehistory

        return prehistory.observe_everything(model).copy()
    if origin == "analysed":
        # analyses that promise to leave the model as they found it (C13) have run before
        from cobra.flux_analysis import find_blocked_reactions, flux_variability_analysis, pfba

        for fn in (lambda: model.optimize(), lambda: flux_variability_analysis(model, processes=1, fraction_of_optimum=0.5),
                   lambda: pfba(model), lambda: find_blocked_reactions(model, processes=1),
                   lambda: model.slim_optimize()):
            try:
                fn()
            except Exception:
                pass
        return model
    if origin == "in_context":
        # the caller works inside an open user context in which one edit was made and taken back
        model.__enter__()
        r = model.reactions[0]
        lb, ub = r.bounds
        r.bounds = (lb - 1, ub + 1)
        r.bounds = (lb, ub)
        return model
    raise AssertionError(origin)
