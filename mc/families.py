"""Bounded exhaustive input families (DESIGN §2.2).

F(nm, nr, K, B, d): metabolites A,B,C[:nm]; candidate reactions = boundary columns (one
metabolite consumed) + all internal columns over K (both orientations); a network = a set of
<= nr columns, canonical under relabelling of metabolites; default bounds (-10,10) for
boundary and (0,10) for internal reactions with at most d reactions deviating to another
value of the menu B.  Every generator has a total order: a case is reproducible from its index.
"""
import itertools

INF = float("inf")
METS = ["A", "B", "C", "D"]   # (the enumerated families use the first three; D is for hand-made shapes)

BOUNDS_MENU = [(0, 10), (-10, 10), (0, 0), (2, 10), (-10, -2), (-10, 0), (3, 3), (0, INF), (-INF, INF), (0, 1000),
               (-INF, -2), (2, INF)]


def columns(nm=3, K=(-1, 0, 1)):
    cols = []
    for v in itertools.product(K, repeat=nm):
        nz = [x for x in v if x != 0]
        if not nz:
            continue
        if len(nz) == 1:
            if nz[0] == -1:
                cols.append(v)  # boundary: consumption orientation only, coefficient -1
            continue
        cols.append(v)
    # boundary first, then internal by number of non-zeros (simplest first)
    cols.sort(key=lambda v: (sum(1 for x in v if x), tuple(abs(x) for x in v), v))
    return cols


def is_boundary(col):
    return sum(1 for x in col if x != 0) == 1


def canonical(net, nm):
    best = None
    for perm in itertools.permutations(range(nm)):
        img = tuple(sorted(tuple(col[perm[i]] for i in range(nm)) for col in net))
        if best is None or img < best:
            best = img
    return best


def networks(nm=3, nr=3, K=(-1, 0, 1), min_size=1, need_boundary=False):
    cols = columns(nm, K)
    seen = set()
    out = []
    for size in range(min_size, nr + 1):
        for net in itertools.combinations(cols, size):
            if need_boundary and not any(is_boundary(c) for c in net):
                continue
            key = canonical(net, nm)
            if key in seen:
                continue
            seen.add(key)
            out.append(tuple(key))
    return out


def raw_network_count(nm=3, nr=3, K=(-1, 0, 1)):
    n = len(columns(nm, K))
    from math import comb

    return sum(comb(n, k) for k in range(1, nr + 1))


def default_bounds(col):
    return (-10, 10) if is_boundary(col) else (0, 10)


def bound_assignments(net, d=1, menu=BOUNDS_MENU):
    base = [default_bounds(c) for c in net]
    yield tuple(base)
    for k in range(1, d + 1):
        for pos in itertools.combinations(range(len(net)), k):
            alts = [[b for b in menu if b != base[p]] for p in pos]
            for choice in itertools.product(*alts):
                b = list(base)
                for p, c in zip(pos, choice):
                    b[p] = c
                yield tuple(b)


def rxn_ids(net):
    ids = []
    k = 0
    for col in net:
        if is_boundary(col):
            rid = "EX_" + METS[[i for i, x in enumerate(col) if x][0]]
            n = 1
            while rid in ids:   # a further boundary reaction of the same metabolite (hand-made shapes only)
                n += 1
                rid = "EX%d_%s" % (n, METS[[i for i, x in enumerate(col) if x][0]])
            ids.append(rid)
        else:
            k += 1
            ids.append("v%d" % k)
    return ids


def as_data(net, bounds, nm=3):
    """(mets, rxns[(id, {met: coef}, lb, ub)]) for exactlp.FBA and for build_model."""
    ids = rxn_ids(net)
    mets = METS[:nm]
    rxns = []
    for rid, col, (lb, ub) in zip(ids, net, bounds):
        rxns.append((rid, {mets[i]: x for i, x in enumerate(col) if x}, lb, ub))
    used = [m for m in mets if any(m in r[1] for r in rxns)]
    return used, rxns


def build_model(mets, rxns, interface="glpk", compartments=None, flip=(), rules=None, user_first=False):
    """Real cobra model from plain data. flip: reaction ids written in the opposite direction
    (`--> A` instead of `A -->`) with bounds mirrored, so that the net problem is the same."""
    from cobra import Metabolite, Model, Reaction

    m = Model("fam")
    if interface != "glpk":
        m.solver = interface
    if user_first:
        # a user-level variable and constraint that precede every steady-state row and flux column (they do not
        # restrict the fluxes)
        uv = m.problem.Variable("user_var", lb=0, ub=1)
        m.add_cons_vars([uv, m.problem.Constraint(uv, lb=0, ub=1, name="user_con")])
        m.solver.update()
    compartments = compartments or {}
    mo = {x: Metabolite(x, compartment=compartments.get(x, "c")) for x in mets}
    rs = []
    for rid, st, lb, ub in rxns:
        r = Reaction(rid)
        if rid in flip:
            r.add_metabolites({mo[k]: -v for k, v in st.items()})
            r.bounds = (-ub, -lb)
        else:
            r.add_metabolites({mo[k]: v for k, v in st.items()})
            r.bounds = (lb, ub)
        if rules and rules.get(rid):
            r.gene_reaction_rule = rules[rid]
        rs.append(r)
    m.add_reactions(rs)
    return m


def objectives(ids, rich=False):
    """(objective dict, direction) menu: singles both directions, negative single, one weighted pair per
    pair of reactions, empty objective."""
    out = []
    for r in ids:
        out.append(({r: 1}, "max"))
        out.append(({r: 1}, "min"))
        out.append(({r: -1}, "max"))
    for a, b in itertools.combinations(ids, 2):
        out.append(({a: 1, b: -2}, "max"))
        if rich:
            out.append(({a: 1, b: 1}, "max"))
            out.append(({a: 1, b: -2}, "min"))
    out.append(({}, "max"))
    return out
