"""Snapshots of a cobra model as plain data: Python view, raw GLPK view, optlang view.

Only public API plus swiglpk reads are used.  All values are converted to plain Python
types so that snapshots can be compared, hashed (via `freeze`) and written to JSON.
"""
import itertools
import math

INF = float("inf")


def _num(x):
    if x is None:
        return None
    try:
        x = float(x)
    except (TypeError, ValueError):
        return repr(x)
    if x != x:
        return "nan"
    if x == INF:
        return "inf"
    if x == -INF:
        return "-inf"
    if x == int(x) and abs(x) < 1e15:
        return int(x)
    return x


def _plain(x):
    """Recursively turn notes/annotation-like values into comparable plain data."""
    if isinstance(x, dict):
        return {str(k): _plain(v) for k, v in sorted(x.items(), key=lambda kv: str(kv[0]))}
    if isinstance(x, (list, tuple)):
        return [_plain(v) for v in x]
    if isinstance(x, (set, frozenset)):
        return sorted((_plain(v) for v in x), key=repr)
    if isinstance(x, (int, float)) and not isinstance(x, bool):
        return _num(x)
    if isinstance(x, (str, bool)) or x is None:
        return x
    return repr(x)


def truth_table(gpr, gene_ids):
    """Truth table of a GPR over its (sorted) genes: tuple of bools over all knock-out subsets."""
    ids = sorted(gene_ids)
    if len(ids) > 6:
        return "too_many_genes"
    rows = []
    for k in range(len(ids) + 1):
        for ko in itertools.combinations(ids, k):
            try:
                rows.append(bool(gpr.eval(set(ko))))
            except Exception as exc:  # pragma: no cover
                rows.append("err:" + type(exc).__name__)
    return rows


def reaction_view(r, with_model=True):
    v = {
        "id": r.id,
        "name": r.name,
        "subsystem": r.subsystem,
        "lb": _num(r.lower_bound),
        "ub": _num(r.upper_bound),
        "mets": {m.id: _num(c) for m, c in sorted(r.metabolites.items(), key=lambda mc: mc[0].id)},
        "rule": r.gene_reaction_rule,
        "genes": sorted(g.id for g in r.genes),
        "rule_genes": sorted(r.gpr.genes) if r.gpr is not None else [],
        "notes": _plain(r.notes),
        "annotation": _plain(r.annotation),
    }
    try:
        v["table"] = truth_table(r.gpr, v["rule_genes"])
    except Exception as exc:  # pragma: no cover
        v["table"] = "err:" + type(exc).__name__
    if with_model:
        v["has_model"] = r.model is not None
    return v


def metabolite_view(m):
    return {
        "id": m.id,
        "name": m.name,
        "formula": m.formula,
        "charge": _num(m.charge),
        "compartment": m.compartment,
        "reactions": sorted(r.id for r in m.reactions),
        "notes": _plain(m.notes),
        "annotation": _plain(m.annotation),
        "has_model": m.model is not None,
    }


def gene_view(g):
    return {
        "id": g.id,
        "name": g.name,
        "functional": g.functional,
        "reactions": sorted(r.id for r in g.reactions),
        "notes": _plain(g.notes),
        "annotation": _plain(g.annotation),
        "has_model": g.model is not None,
    }


def group_view(g):
    def kind(x):
        return type(x).__name__

    return {
        "id": g.id,
        "name": g.name,
        "kind": g.kind,
        "members": sorted([kind(x), x.id] for x in g.members),
        "notes": _plain(g.notes),
        "annotation": _plain(g.annotation),
        "has_model": getattr(g, "_model", None) is not None,
    }


def objective_view(model):
    """Reported linear objective coefficients {reaction id: coefficient} and direction."""
    from cobra.util.solver import linear_reaction_coefficients

    try:
        coefs = {r.id: _num(c) for r, c in linear_reaction_coefficients(model).items() if c != 0}
    except Exception as exc:
        coefs = "err:" + type(exc).__name__
    return {"coefficients": coefs, "direction": model.objective_direction}


def python_view(model):
    """Content of the model through the public API (list orders preserved)."""
    from cobra.util.solver import interface_to_str

    v = {
        "id": model.id,
        "name": model.name,
        "compartments": _plain(model.compartments),
        "notes": _plain(model.notes),
        "annotation": _plain(model.annotation),
        "tolerance": model.tolerance,
        "interface": interface_to_str(model.problem),
        "reactions": [reaction_view(r) for r in model.reactions],
        "metabolites": [metabolite_view(m) for m in model.metabolites],
        "genes": [gene_view(g) for g in model.genes],
        "groups": [group_view(g) for g in model.groups],
        "objective": objective_view(model),
        "context_depth": len(getattr(model, "_contexts", []) or []),
    }
    return v


def xref_problems(model):
    """Cross-reference invariants of C02 (oracle 2). Returns list of problem strings."""
    P = []
    for attr in ("reactions", "metabolites", "genes", "groups"):
        lst = getattr(model, attr)
        ids = [x.id for x in lst]
        if len(set(ids)) != len(ids):
            P.append(f"{attr}: duplicate ids {sorted(i for i in set(ids) if ids.count(i) > 1)}")
        for j, x in enumerate(lst):
            try:
                if lst.get_by_id(x.id) is not x:
                    P.append(f"{attr}: get_by_id({x.id!r}) is not the listed object")
                if lst.index(x.id) != j:
                    P.append(f"{attr}: index({x.id!r}) = {lst.index(x.id)} but element is at {j}")
            except Exception as exc:
                P.append(f"{attr}: lookup of {x.id!r} raised {type(exc).__name__}")
            if getattr(x, "_model", None) is not model:
                P.append(f"{attr}: {x.id!r}.model is not the model")
        idx = getattr(lst, "_dict", None)
        if isinstance(idx, dict) and set(idx) != set(ids):
            P.append(f"{attr}: id index has stale/missing keys {sorted(set(idx) ^ set(ids))}")
    for r in model.reactions:
        for m, c in r.metabolites.items():
            if c == 0:
                P.append(f"reaction {r.id}: zero coefficient for {m.id}")
            if m not in model.metabolites or model.metabolites.get_by_id(m.id) is not m:
                P.append(f"reaction {r.id}: metabolite {m.id} is not the model's object")
            if r not in m.reactions:
                P.append(f"reaction {r.id} lists {m.id} but {m.id} does not list the reaction")
        for g in r.genes:
            if g not in model.genes or model.genes.get_by_id(g.id) is not g:
                P.append(f"reaction {r.id}: gene {g.id} is not the model's object")
            if r not in g.reactions:
                P.append(f"reaction {r.id} lists gene {g.id} but the gene does not list the reaction")
        rg = set(r.gpr.genes) if r.gpr is not None else set()
        if {g.id for g in r.genes} != rg:
            P.append(f"reaction {r.id}: genes {sorted(g.id for g in r.genes)} != genes of rule {sorted(rg)}")
    for m in model.metabolites:
        for r in m.reactions:
            if r not in model.reactions or model.reactions.get_by_id(r.id) is not r:
                P.append(f"metabolite {m.id} lists reaction {r.id} which is not in the model")
            elif m not in r.metabolites:
                P.append(f"metabolite {m.id} lists {r.id} but the reaction does not list it")
    for g in model.genes:
        for r in g.reactions:
            if r not in model.reactions or model.reactions.get_by_id(r.id) is not r:
                P.append(f"gene {g.id} lists reaction {r.id} which is not in the model")
            elif g not in r.genes:
                P.append(f"gene {g.id} lists {r.id} but the reaction does not list it")
    for grp in model.groups:
        for x in grp.members:
            kind = type(x).__name__
            lst = {"Reaction": model.reactions, "Metabolite": model.metabolites,
                   "Gene": model.genes, "Group": model.groups}.get(kind)
            if lst is None or x.id not in lst or lst.get_by_id(x.id) is not x:
                P.append(f"group {grp.id}: member {kind} {x.id} is not in the model")
    return P


# ----------------------------------------------------------------------------------------
# raw GLPK view

def raw_lp(model, update=True):
    """Read the GLPK problem with glp_get_* calls. Keys by name; order kept in 'col_order'/'row_order'."""
    import swiglpk as g

    solver = model.solver
    if update:
        solver.update()
    P = solver.problem
    ncol = g.glp_get_num_cols(P)
    nrow = g.glp_get_num_rows(P)
    tname = {g.GLP_FR: "free", g.GLP_LO: "lo", g.GLP_UP: "up", g.GLP_DB: "db", g.GLP_FX: "fx"}
    kname = {g.GLP_CV: "continuous", g.GLP_IV: "integer", g.GLP_BV: "binary"}

    def bounds(t, lb, ub):
        if t == g.GLP_FR:
            return (-INF, INF)
        if t == g.GLP_LO:
            return (lb, INF)
        if t == g.GLP_UP:
            return (-INF, ub)
        if t == g.GLP_DB:
            return (lb, ub)
        return (lb, lb)

    cols = {}
    col_order = []
    names = {}
    for j in range(1, ncol + 1):
        name = g.glp_get_col_name(P, j)
        t = g.glp_get_col_type(P, j)
        lb, ub = bounds(t, g.glp_get_col_lb(P, j), g.glp_get_col_ub(P, j))
        names[j] = name
        col_order.append(name)
        if name in cols:
            cols[name + "#dup%d" % j] = None
        cols[name] = {"kind": kname.get(g.glp_get_col_kind(P, j), "?"), "lb": lb, "ub": ub,
                      "obj": g.glp_get_obj_coef(P, j)}
    rows = {}
    row_order = []
    ia = g.intArray(ncol + 1)
    da = g.doubleArray(ncol + 1)
    for i in range(1, nrow + 1):
        name = g.glp_get_row_name(P, i)
        t = g.glp_get_row_type(P, i)
        lb, ub = bounds(t, g.glp_get_row_lb(P, i), g.glp_get_row_ub(P, i))
        n = g.glp_get_mat_row(P, i, ia, da)
        coefs = {}
        for k in range(1, n + 1):
            if da[k] != 0:
                coefs[names[ia[k]]] = da[k]
        row_order.append(name)
        if name in rows:
            rows[name + "#dup%d" % i] = None
        rows[name] = {"lb": lb, "ub": ub, "coefs": coefs}
    return {
        "cols": cols, "rows": rows, "col_order": col_order, "row_order": row_order,
        "direction": "max" if g.glp_get_obj_dir(P) == g.GLP_MAX else "min",
        "offset": g.glp_get_obj_coef(P, 0),
    }


def optlang_view(model):
    solver = model.solver
    def b(x, default):
        # optlang reports an infinite bound as None, or as +-DBL_MAX after a clone through
        # GLPK's text format; both mean "no bound"
        if x is None:
            return default
        x = float(x)
        return default if abs(x) >= 1e300 else x

    cols = {}
    for v in solver.variables:
        cols[v.name] = {"kind": v.type, "lb": b(v.lb, -INF), "ub": b(v.ub, INF)}
    rows = {}
    for c in solver.constraints:
        rows[c.name] = {"lb": b(c.lb, -INF), "ub": b(c.ub, INF)}
    return {"cols": cols, "rows": rows, "direction": solver.objective.direction}


def _close(a, b, rel=1e-12):
    if a == b:
        return True
    if isinstance(a, float) and isinstance(b, float) or True:
        try:
            if math.isinf(a) or math.isinf(b):
                return a == b
            return abs(a - b) <= rel * max(1.0, abs(a), abs(b))
        except TypeError:
            return False


def lp_problems(model, user_cols=(), user_rows=None, raw=None):
    """C01 invariant: the raw GLPK problem is exactly the FBA problem of the Python objects.

    user_cols: names of explicitly added variables; user_rows: {name: None} explicitly added
    constraints (content not judged).  Returns list of problem strings (empty = holds)."""
    P = []
    if raw is None:
        try:
            raw = raw_lp(model)
        except Exception as exc:
            return [f"raw LP unreadable: {type(exc).__name__}: {exc}"]
    user_rows = set(user_rows or ())
    user_cols = set(user_cols)
    cols, rows = raw["cols"], raw["rows"]
    for name, c in cols.items():
        if c is None:
            P.append(f"duplicate column name {name}")
    for name, r in rows.items():
        if r is None:
            P.append(f"duplicate row name {name}")
    expected_cols = {}
    from cobra.util.solver import linear_reaction_coefficients

    try:
        objc = {r.id: float(c) for r, c in linear_reaction_coefficients(model).items()}
    except Exception as exc:
        objc = {}
        P.append(f"objective coefficients unreadable: {type(exc).__name__}")
    for r in model.reactions:
        try:
            f, b = r.forward_variable.name, r.reverse_variable.name
        except Exception as exc:
            P.append(f"reaction {r.id}: no solver variables ({type(exc).__name__})")
            continue
        if f not in cols or b not in cols or cols.get(f) is None or cols.get(b) is None:
            P.append(f"reaction {r.id}: columns {f}/{b} missing from the solver")
            continue
        expected_cols[f] = r
        expected_cols[b] = r
        cf, cb = cols[f], cols[b]
        for nm, c in ((f, cf), (b, cb)):
            if c["kind"] != "continuous":
                P.append(f"column {nm} is {c['kind']}")
            if c["lb"] < 0:
                P.append(f"column {nm} has negative lower bound {c['lb']}")
        lo = cf["lb"] - cb["ub"]
        hi = cf["ub"] - cb["lb"]
        if not (_close(lo, float(r.lower_bound)) and _close(hi, float(r.upper_bound))):
            P.append(f"reaction {r.id}: net flux range in solver [{lo}, {hi}] != bounds {r.bounds}")
        k = objc.get(r.id, 0.0)
        if not (_close(cf["obj"], k) and _close(cb["obj"], -k)):
            P.append(f"reaction {r.id}: objective coefficients in solver ({cf['obj']}, {cb['obj']}) "
                     f"!= reported coefficient {k}")
    for name in cols:
        if name not in expected_cols and name not in user_cols and cols[name] is not None:
            P.append(f"extra column {name} (not a reaction variable, not user-added)")
        if name in user_cols and cols[name] is not None and cols[name]["obj"] != 0 and False:
            pass
    for name in user_cols:
        if name not in cols:
            P.append(f"user variable {name} missing from the solver")
    met_ids = set()
    stoich = {}
    for r in model.reactions:
        try:
            f, b = r.forward_variable.name, r.reverse_variable.name
        except Exception:
            continue
        for met, c in r.metabolites.items():
            w = stoich.setdefault(met.id, {})
            w[f] = w.get(f, 0.0) + float(c)
            w[b] = w.get(b, 0.0) - float(c)
    for m in model.metabolites:
        met_ids.add(m.id)
        row = rows.get(m.id)
        if row is None:
            P.append(f"metabolite {m.id}: no steady-state row in the solver")
            continue
        if not (row["lb"] == 0 and row["ub"] == 0):
            P.append(f"metabolite {m.id}: row bounds ({row['lb']}, {row['ub']}) != (0, 0)")
        want = {k: v for k, v in stoich.get(m.id, {}).items() if v != 0}
        got = {k: v for k, v in row["coefs"].items() if k not in user_cols}
        if set(want) != set(got) or any(not _close(want[k], got[k]) for k in want):
            P.append(f"metabolite {m.id}: row coefficients {got} != stoichiometry {want}")
    for mid in stoich:
        if mid not in met_ids:
            P.append(f"stoichiometry mentions {mid} which is not a metabolite of the model")
    for name in rows:
        if name not in met_ids and name not in user_rows and rows[name] is not None:
            P.append(f"extra row {name} (not a metabolite, not user-added)")
    for name in user_rows:
        if name not in rows:
            P.append(f"user constraint {name} missing from the solver")
    if raw["direction"] != model.objective_direction:
        P.append(f"solver direction {raw['direction']} != reported {model.objective_direction}")
    if raw["offset"] != 0:
        P.append(f"objective has constant term {raw['offset']}")
    for name, c in cols.items():
        if c is not None and name not in expected_cols and c["obj"] != 0:
            P.append(f"non-reaction column {name} has objective coefficient {c['obj']}")
    # the optlang view must agree with the raw view
    try:
        ov = optlang_view(model)
        if set(ov["cols"]) != {n for n, c in cols.items() if c is not None}:
            P.append(f"optlang variables != GLPK columns: {sorted(set(ov['cols']) ^ set(cols))}")
        else:
            for n, c in ov["cols"].items():
                if not (_close(c["lb"], cols[n]["lb"]) and _close(c["ub"], cols[n]["ub"])):
                    P.append(f"optlang bounds of {n} ({c['lb']},{c['ub']}) != GLPK ({cols[n]['lb']},{cols[n]['ub']})")
        if set(ov["rows"]) != {n for n, r in rows.items() if r is not None}:
            P.append(f"optlang constraints != GLPK rows: {sorted(set(ov['rows']) ^ set(rows))}")
        if ov["direction"] != raw["direction"]:
            P.append("optlang objective direction != GLPK direction")
    except Exception as exc:
        P.append(f"optlang view unreadable: {type(exc).__name__}: {exc}")
    return P


def lp_canonical(raw, ordered=False, digits=12):
    """Hashable canonical form of a raw LP (names as keys; optional order)."""
    def r(x):
        if isinstance(x, float) and not math.isinf(x):
            return float(f"{x:.{digits}g}")
        return x

    cols = tuple(sorted((n, c["kind"], r(c["lb"]), r(c["ub"]), r(c["obj"])) for n, c in raw["cols"].items() if c))
    rows = tuple(sorted((n, r(w["lb"]), r(w["ub"]), tuple(sorted((k, r(v)) for k, v in w["coefs"].items())))
                        for n, w in raw["rows"].items() if w))
    out = (cols, rows, raw["direction"], r(raw["offset"]))
    if ordered:
        out += (tuple(raw["col_order"]), tuple(raw["row_order"]))
    return out


def freeze(x):
    """Hashable deep-frozen copy of plain data."""
    if isinstance(x, dict):
        return tuple(sorted((k, freeze(v)) for k, v in x.items()))
    if isinstance(x, (list, tuple)):
        return tuple(freeze(v) for v in x)
    if isinstance(x, (set, frozenset)):
        return tuple(sorted(freeze(v) for v in x))
    return x


def unordered(view):
    """Python view with the element lists keyed by id (list order dropped)."""
    v = dict(view)
    for k in ("reactions", "metabolites", "genes", "groups"):
        v[k] = {e["id"]: e for e in view[k]}
    return v


def diff(a, b, path="", out=None, limit=12):
    """First differing paths between two plain structures."""
    if out is None:
        out = []
    if len(out) >= limit:
        return out
    if isinstance(a, dict) and isinstance(b, dict):
        for k in sorted(set(a) | set(b), key=str):
            if k not in a:
                out.append(f"{path}/{k}: missing on left, right={_short(b[k])}")
            elif k not in b:
                out.append(f"{path}/{k}: left={_short(a[k])}, missing on right")
            else:
                diff(a[k], b[k], f"{path}/{k}", out, limit)
            if len(out) >= limit:
                break
    elif isinstance(a, (list, tuple)) and isinstance(b, (list, tuple)):
        if len(a) != len(b):
            out.append(f"{path}: length {len(a)} != {len(b)}: {_short(a)} vs {_short(b)}")
        else:
            for i, (x, y) in enumerate(zip(a, b)):
                diff(x, y, f"{path}[{i}]", out, limit)
    else:
        if a != b and not (isinstance(a, float) and isinstance(b, float) and _close(a, b)):
            out.append(f"{path}: {_short(a)} != {_short(b)}")
    return out


def _short(x, n=160):
    s = repr(x)
    return s if len(s) <= n else s[:n] + "..."


def first_path(diffs):
    """Normalised first differing field path for violation signatures (ids/indices stripped)."""
    import re

    if not diffs:
        return ""
    p = diffs[0].split(":")[0]
    p = re.sub(r"\[\d+\]", "[]", p)
    return p
