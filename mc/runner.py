"""Common driver: ./check <ID> [quick|thorough] [--replay FILE]

A harness module mc/harness/<id>.py provides
    PROPERTY            "C15"
    explore(ctx)        enumerate, call ctx.violation(sig, case, detail), fill ctx.cov
    replay(case)        re-execute one case straight-line -> list of {"sig":..., "detail":...}
    run_task(payload)   (optional) body executed inside crash-isolated workers
"""
import importlib
import json
import os
import pickle
import subprocess
import sys
import time
import traceback

from . import PYTHON, REPO_SRC, VERIF_ROOT
from .findings import KnownFindings, sig_key
from .pool import WorkerPool

EXIT_OK, EXIT_VIOLATION, EXIT_INTERNAL = 0, 1, 3


class Ctx:
    def __init__(self, prop, tier, seed):
        self.prop = prop
        self.tier = tier
        self.seed = seed
        # hash seed: fixed inside a run, varied across VERIF_SEED (a configuration dimension)
        self.hashseed = 1 + (seed * 7919) % 100003
        self.cov = {}
        self.samples = []
        self.assumptions = []
        self.violations = []  # (sig, case, detail)
        self.payload_of = {}  # index into violations -> worker payload that produced it
        self.internal_errors = []
        self.aborts = 0
        self.timeouts = 0
        self.t0 = time.time()
        self.harness_name = prop.lower()

    @property
    def thorough(self):
        return self.tier == "thorough"

    def pool(self, nworkers=None, timeout=120, harness=None, extra_env=None):
        return WorkerPool(
            harness or self.harness_name, nworkers, self.hashseed, timeout, extra_env
        )

    def violation(self, sig, case, detail=""):
        self.violations.append((dict(sig), case, detail))

    def sample(self, item, limit=6):
        if len(self.samples) < limit:
            self.samples.append(item)

    def internal(self, text):
        self.internal_errors.append(text)

    def collect(self, status, res, payload_desc=None):
        """Fold one worker result into the context; returns res dict or None."""
        if status == "abort":
            self.aborts += 1
            return None
        if status == "timeout":
            self.timeouts += 1
            return None
        if isinstance(res, dict) and "internal_error" in res:
            self.internal(res["internal_error"])
            return None
        payload = res.get("_payload") if isinstance(res, dict) else None
        for v in res.get("violations", ()):
            self.violation(*v)
            if payload is not None:
                self.payload_of[len(self.violations) - 1] = (payload, res.get("_history"))
        return res


def _replay_path(prop, key):
    import hashlib

    d = os.path.join(VERIF_ROOT, "out", "replays", prop)
    os.makedirs(d, exist_ok=True)
    return os.path.join(d, hashlib.sha1(key.encode()).hexdigest()[:12] + ".json")


def _run_replay_subprocess(prop, path, hashseed, flag="--replay"):
    env = dict(os.environ)
    env["PYTHONHASHSEED"] = str(hashseed)
    env["PYTHONPATH"] = VERIF_ROOT + os.pathsep + REPO_SRC
    env["PYTHONDONTWRITEBYTECODE"] = "1"
    try:
        p = subprocess.run(
            [PYTHON, "-u", "-m", "mc.runner", prop, flag, path, "--json"],
            env=env, cwd=VERIF_ROOT, capture_output=True, text=True, timeout=600,
        )
    except subprocess.TimeoutExpired:
        return None, "timeout"
    out = None
    for line in p.stdout.splitlines():
        if line.startswith("REPLAY-JSON "):
            out = json.loads(line[len("REPLAY-JSON "):])
    return out, p.returncode


def finish(ctx, mod):
    known = KnownFindings(ctx.prop)
    buckets = {}
    first_index = {}
    for idx, (sig, case, detail) in enumerate(ctx.violations):
        k = sig_key(sig)
        if k not in buckets:
            buckets[k] = (sig, case, detail, 1)
            first_index[k] = idx
        else:
            s, c, d, n = buckets[k]
            buckets[k] = (s, c, d, n + 1)
    new = []
    known_hit = {}
    for k, (sig, case, detail, n) in sorted(buckets.items()):
        entry = known.match(sig)
        if entry is not None:
            known_hit.setdefault(entry["id"], [entry, 0])[1] += n
        else:
            new.append((k, sig, case, detail, n))
    exit_code = EXIT_OK
    for eid, (entry, n) in sorted(known_hit.items()):
        print(f"KNOWN-FINDING: property={ctx.prop} {entry['what']} [{eid}; {n} violating cases]")
    reported = 0
    nondeterministic = []
    for k, sig, case, detail, n in new:
        path = _replay_path(ctx.prop, k)
        with open(path, "w") as fh:
            json.dump({"property": ctx.prop, "harness": ctx.harness_name, "hashseed": ctx.hashseed,
                       "sig": sig, "case": case, "detail": detail, "count": n}, fh, indent=1,
                      default=repr)
        if reported < 25 and hasattr(mod, "replay") and not os.environ.get("VERIF_NO_RECHECK"):
            ok = 0
            for _ in range(2):
                out, rc = _run_replay_subprocess(ctx.prop, path, ctx.hashseed)
                if out is not None and any(sig_key(o["sig"]) == k for o in out):
                    ok += 1
                elif out is None and sig.get("kind") in ("abort", "timeout"):
                    ok += 1  # the replay died again: reproduced
            if ok < 2:
                # the case does not violate on its own: does it when the whole worker task that produced it is
                # re-executed in a fresh process (state carried from one case of the task to the next, e.g. a
                # module-level cache in the library)?  Then it is a reproducible, history-dependent violation.
                payload, history = ctx.payload_of.get(first_index[k], (None, None))
                ok2 = 0
                ppath = path[:-5] + ".task.pkl"
                for payloads in ([payload], history):
                    if payload is None or not payloads or ok2 == 2:
                        continue
                    with open(ppath, "wb") as fh:
                        pickle.dump({"property": ctx.prop, "harness": ctx.harness_name, "hashseed": ctx.hashseed,
                                     "sig": sig, "payloads": payloads, "detail": detail}, fh, protocol=4)
                    ok2 = 0
                    for _ in range(2):
                        out, rc = _run_replay_subprocess(ctx.prop, ppath, ctx.hashseed, "--replay-task")
                        if out is not None and any(sig_key(o["sig"]) == k for o in out):
                            ok2 += 1
                if ok2 < 2:
                    nondeterministic.append((path, sig))
                    continue
                path = ppath
                detail = "(violates only after the cases that the same worker process ran before it: replay with --replay-task)\n" + str(detail)
        reported += 1
        exit_code = EXIT_VIOLATION
        print(f"VIOLATION property={ctx.prop} replay={path}")
        print(f"  signature: {json.dumps(sig, sort_keys=True)}  ({n} cases)")
        if detail:
            print("  " + str(detail)[:1500].replace("\n", "\n  "))
    if nondeterministic:
        for path, sig in nondeterministic:
            print(f"NONDETERMINISM: violation did not reproduce twice: {json.dumps(sig, sort_keys=True)} {path}")
        if exit_code == EXIT_OK:
            exit_code = EXIT_INTERNAL
    if ctx.internal_errors:
        print(f"INTERNAL-ERROR: {len(ctx.internal_errors)} harness errors; first:\n{ctx.internal_errors[0]}")
        if exit_code == EXIT_OK:
            exit_code = EXIT_INTERNAL
    from .evidence import write_evidence

    cov = dict(ctx.cov)
    cov.setdefault("samples", ctx.samples or ["(none)"])
    cov["aborts"] = ctx.aborts
    cov["timeouts"] = ctx.timeouts
    if ctx.timeouts or ctx.aborts_unexplained():
        cov["exhaustive"] = False
    cov["violating_cases"] = len(ctx.violations)
    cov["violation_buckets"] = len(buckets)
    cov["known_finding_buckets"] = len(buckets) - len(new)
    cov["hashseed"] = ctx.hashseed
    cov["cobra_src"] = REPO_SRC
    write_evidence(ctx.prop, ctx.tier, ctx.seed, getattr(mod, "LEVEL", "model_checking"), cov,
                   ctx.assumptions, time.time() - ctx.t0, len(new))
    st = cov.get("states"), cov.get("transitions"), cov.get("evaluations")
    print(f"{ctx.prop} {ctx.tier}: states={st[0]} transitions={st[1]} evaluations={st[2]} "
          f"violating_cases={len(ctx.violations)} new_buckets={len(new)} known_buckets={len(buckets) - len(new)} "
          f"aborts={ctx.aborts} timeouts={ctx.timeouts} wall={time.time() - ctx.t0:.1f}s")
    return exit_code


def _aborts_unexplained(self):
    return False


Ctx.aborts_unexplained = _aborts_unexplained


def main(argv=None):
    argv = list(sys.argv[1:] if argv is None else argv)
    if not argv:
        print(__doc__)
        return EXIT_INTERNAL
    prop = argv.pop(0).upper()
    as_json = "--json" in argv
    if as_json:
        argv.remove("--json")
    mod = importlib.import_module("mc.harness." + prop.lower())
    if "--replay-task" in argv:
        # re-execute one whole worker task (list of cases) in this fresh process
        path = argv[argv.index("--replay-task") + 1]
        with open(path, "rb") as fh:
            rec = pickle.load(fh)
        import warnings
        import logging

        warnings.filterwarnings("ignore")
        logging.disable(logging.CRITICAL)
        from . import assert_repo_cobra

        assert_repo_cobra()
        import cobra

        cobra.Configuration().processes = 1
        hmod = importlib.import_module("mc.harness." + rec.get("harness", prop.lower()))
        res = {}
        for payload in rec["payloads"]:    # the last one is the task that reported the violation
            res = hmod.run_task(payload)
        out = [{"sig": v[0], "detail": str(v[2])[:2000]} for v in res.get("violations", ())]
        if as_json:
            print("REPLAY-JSON " + json.dumps(out, default=repr))
        else:
            print(f"re-executed the task of {path}: {len(out)} violating cases")
            for o in out[:5]:
                print("observed:", json.dumps(o["sig"], sort_keys=True))
        return EXIT_VIOLATION if out else EXIT_OK
    if "--replay" in argv:
        path = argv[argv.index("--replay") + 1]
        with open(path) as fh:
            rec = json.load(fh)
        if "--emit-test" in argv:
            # a plain pytest function that replays the stored case without the explorer
            name = os.path.splitext(os.path.basename(path))[0]
            print("# run with: PYTHONPATH=/verif:/repo/src /venv/bin/python -m pytest -q <this file>")
            print("import json\n")
            print(f"CASE = json.loads(r\'\'\'{json.dumps(rec['case'])}\'\'\')\n")
            print(f"def test_{prop.lower()}_{name}():")
            print(f"    \"\"\"{prop}: {json.dumps(rec['sig'], sort_keys=True)}\"\"\"")
            print("    import cobra")
            print("    cobra.Configuration().processes = 1")
            print(f"    from mc.harness import {prop.lower()} as harness")
            print("    violations = harness.replay(CASE)")
            print("    assert not violations, violations[0]")
            return EXIT_OK
        import warnings
        import logging

        warnings.filterwarnings("ignore")
        logging.disable(logging.CRITICAL)
        from . import assert_repo_cobra

        assert_repo_cobra()
        import cobra

        cobra.Configuration().processes = 1
        out = mod.replay(rec["case"])
        if as_json:
            print("REPLAY-JSON " + json.dumps(out, default=repr))
        else:
            print(f"replaying {path}\nexpected signature: {json.dumps(rec['sig'], sort_keys=True)}")
            for o in out:
                print("observed:", json.dumps(o["sig"], sort_keys=True))
                print("  " + str(o.get("detail", ""))[:3000].replace("\n", "\n  "))
            if not out:
                print("no violation observed")
        return EXIT_VIOLATION if out else EXIT_OK
    tier = os.environ.get("VERIF_TIER", "quick")
    for a in argv:
        if a in ("quick", "thorough"):
            tier = a
    seed = int(os.environ.get("VERIF_SEED", "0") or 0)
    if os.environ.get("VERIF_COBRA_SRC") and not os.environ.get("VERIF_ALLOW_SRC"):
        print("VERIF_COBRA_SRC is only accepted together with VERIF_ALLOW_SRC=1 (mutant runner)")
        return EXIT_INTERNAL
    ctx = Ctx(prop, tier, seed)
    try:
        mod.explore(ctx)
    except Exception:
        ctx.internal(traceback.format_exc())
    return finish(ctx, mod)


if __name__ == "__main__":
    sys.exit(main())
