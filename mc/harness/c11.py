"""C11 - JSON, YAML, dict and pickle round trips return the same model.

Feature-product family (<= k features off default) x format x string/file variants x sort x
Configuration bounds; oracle = content equality, idempotence and equal optimum."""
import io
import os
import pickle
import tempfile
import warnings

from .. import iomodels, observe

PROPERTY = "C11"
LEVEL = "model_checking"

FORMATS = ["json_str", "json_path", "json_handle_pretty", "yaml_str", "yaml_path", "dict", "pickle"]
CONFIG_BOUNDS = [None, (-50, 50), (-1e6, 1e6)]


def roundtrip(model, fmt, sort, tmpdir):
    import cobra.io as cio

    if fmt == "json_str":
        return cio.from_json(cio.to_json(model, sort=sort))
    if fmt == "json_path":
        p = os.path.join(tmpdir, "m.json")
        cio.save_json_model(model, p, sort=sort)
        return cio.load_json_model(p)
    if fmt == "json_handle_pretty":
        p = os.path.join(tmpdir, "m2.json")
        with open(p, "w") as fh:
            cio.save_json_model(model, fh, sort=sort, pretty=True)
        with open(p) as fh:
            return cio.load_json_model(fh)
    if fmt == "yaml_str":
        return cio.from_yaml(cio.to_yaml(model, sort=sort))
    if fmt == "yaml_path":
        p = os.path.join(tmpdir, "m.yml")
        cio.save_yaml_model(model, p, sort=sort)
        return cio.load_yaml_model(p)
    if fmt == "dict":
        d = cio.model_to_dict(model, sort=sort)
        snapshot = pickle.dumps(d)
        m2 = cio.model_from_dict(d)
        if pickle.dumps(d) != snapshot:
            raise AssertionError("model_from_dict modified the dictionary it was given")
        m3 = cio.model_from_dict(d)  # the saved dict can be loaded again
        if observe.diff(iomodels.content_view(m2, False), iomodels.content_view(m3, False)):
            raise AssertionError("loading the same dictionary twice gives different models")
        return m2
    if fmt == "pickle":
        return pickle.loads(pickle.dumps(model))
    raise AssertionError(fmt)


def bench_model(op):
    """Bench model after one bench operation (corpus of reachable states, DESIGN §4 C10/C11)."""
    from .. import bench

    S = bench.Session("glpk")
    if op is not None:
        bench.run_history(S, [op])
    m = S.model
    # user-level solver items are not part of any file format
    for name in ("uc", "uv2_c"):
        if name in m.constraints:
            m.remove_cons_vars([m.constraints[name]])
    for name in ("uv", "uv2"):
        if name in m.variables:
            m.remove_cons_vars([m.variables[name]])
    m.solver.update()
    return m


def check_case(d, fmt, sort, cfg, tmpdir):
    import cobra

    conf = cobra.Configuration()
    old = conf.bounds
    problems = []
    try:
        if cfg is not None:
            conf.bounds = cfg
        with warnings.catch_warnings():
            warnings.simplefilter("ignore")
            model = bench_model(d["bench_op"]) if "bench_op" in d else iomodels.build(d)
            groups = fmt == "pickle"
            before = iomodels.content_view(model, with_groups=groups)
            order_before = [r.id for r in model.reactions], [m.id for m in model.metabolites], [g.id for g in model.genes]
            try:
                m2 = roundtrip(model, fmt, sort, tmpdir)
            except AssertionError as exc:
                return [(str(exc), "")]
            except Exception as exc:
                return [("round trip raised " + type(exc).__name__, repr(exc))]
            after = iomodels.content_view(m2, with_groups=groups)
            # nothing mutable may be shared between two loads of the same document, between the loaded model and
            # the saved one, or between different objects of one loaded model
            from .c12 import mutable_graph

            try:
                m2b = roundtrip(model, fmt, sort, tmpdir)
                g0, g1, g2 = mutable_graph(model), mutable_graph(m2), mutable_graph(m2b)
                # (the Python dict variant hands nested annotation values through by reference: the dictionary is
                # the document there, and the property does not promise a deep copy)
                for name, ga, gb in (() if fmt == "dict" else (("two loads of the same document share", g1, g2),
                                                               ("the loaded model shares with the saved model", g0, g1))):
                    shared = sorted({ga[i] for i in set(ga) & set(gb)})
                    for kd in shared[:3]:
                        problems.append((f"{name} mutable object {kd}", kd))
                owners = {}
                for lst in (m2.reactions, m2.metabolites, m2.genes):
                    for x in lst:
                        for attr in ("notes", "annotation"):
                            obj = getattr(x, attr)
                            if id(obj) in owners and owners[id(obj)] is not x:
                                problems.append((f"loaded objects share one {attr} dictionary", f"{owners[id(obj)].id} and {x.id}"))
                            owners[id(obj)] = x
                for ra, rb in ((a, b) for a in m2.reactions for b in m2.reactions if a.id < b.id):
                    if ra.gpr is rb.gpr:
                        problems.append(("loaded reactions share one rule object", f"{ra.id} and {rb.id}"))
            except Exception as exc:
                problems.append(("second load raised " + type(exc).__name__, repr(exc)))
            df = observe.diff(before, after)
            if df:
                problems.append(("content differs at " + _norm(observe.first_path(df)), "\n".join(df)))
            unchanged = observe.diff(before, iomodels.content_view(model, with_groups=groups))
            if unchanged:
                problems.append(("saving modified the model at " + _norm(observe.first_path(unchanged)), "\n".join(unchanged)))
            if not sort:
                order_after = [r.id for r in m2.reactions], [m.id for m in m2.metabolites], [g.id for g in m2.genes]
                if order_after != order_before:
                    problems.append(("list order changed although sort=False", f"{order_before} vs {order_after}"))
            else:
                for lst in (m2.reactions, m2.metabolites, m2.genes):
                    ids = [x.id for x in lst]
                    if fmt != "pickle" and ids != sorted(ids):
                        problems.append(("lists not sorted although sort=True", str(ids)))
            l1 = observe.lp_canonical(observe.raw_lp(model))
            l2 = observe.lp_canonical(observe.raw_lp(m2))
            if l1 != l2 and not df:
                problems.append(("solver problem differs although the content is equal", ""))
            lp = observe.lp_problems(m2)
            if lp:
                problems.append(("loaded model's solver problem inconsistent: " + _norm(lp[0]), "\n".join(lp[:4])))
            o1, o2 = model.slim_optimize(), m2.slim_optimize()
            if not df and not (o1 == o2 or (o1 != o1 and o2 != o2) or abs(o1 - o2) <= 1e-9 * max(1, abs(o1))):
                problems.append(("optimum differs", f"{o1} vs {o2}"))
            if not problems and "bench_op" not in d:
                # save, edit in place, save again: the second document describes the edited model (whatever a writer
                # remembered at the first save is stale now), and the model loaded from the first document is unaffected
                try:
                    iomodels.edit_in_place(model)
                    edited = iomodels.content_view(model, with_groups=groups)
                    m4 = roundtrip(model, fmt, sort, tmpdir)
                    d4 = observe.diff(edited, iomodels.content_view(m4, with_groups=groups))
                    if d4:
                        problems.append(("saved again after in-place edits: content differs at " + _norm(observe.first_path(d4)),
                                         "\n".join(d4)))
                    d5 = observe.diff(after, iomodels.content_view(m2, with_groups=groups))
                    if d5:
                        problems.append(("editing the saved model changed the model loaded earlier at " +
                                         _norm(observe.first_path(d5)), "\n".join(d5)))
                except Exception as exc:
                    problems.append(("save after in-place edits raised " + type(exc).__name__, repr(exc)))
            if not problems:
                try:
                    m3 = roundtrip(m2, fmt, sort, tmpdir)
                    d2 = observe.diff(after, iomodels.content_view(m3, with_groups=groups))
                    if d2:
                        problems.append(("second round trip changes the model at " + _norm(observe.first_path(d2)), "\n".join(d2)))
                except Exception as exc:
                    problems.append(("second round trip raised " + type(exc).__name__, repr(exc)))
    finally:
        conf.bounds = old
    return problems


def _norm(path):
    import re

    parts = path.split("/")
    if len(parts) > 2 and parts[1] in ("reactions", "metabolites", "genes", "groups"):
        parts[2] = "<id>"
    return re.sub(r"\[\d+\]", "[]", "/".join(parts))


def run_task(payload):
    stats, violations = {}, []
    with tempfile.TemporaryDirectory(prefix="c11_") as tmpdir:
        for d, fmt, sort, cfg in payload["cases"]:
            if "bench_op" in d:
                from ..benchsearch import _t

                stats["evaluations"] = stats.get("evaluations", 0) + 1
                dd = {"bench_op": _t(d["bench_op"]) if d["bench_op"] is not None else None}
                for kind, detail in check_case(dd, fmt, sort, None, tmpdir):
                    opname = d["bench_op"][0] if d["bench_op"] else "none"
                    violations.append(({"format": fmt.split("_")[0], "problem": kind, "config": "default", "bench_op": opname},
                                       {"bench_op": d["bench_op"], "format": fmt, "sort": sort, "config": None},
                                       f"{kind}\nbench after {d['bench_op']}; format {fmt}; sort {sort}\n{detail}"))
                continue
            d = {k: (tuple(v) if isinstance(v, list) else v) for k, v in d.items()}
            stats["evaluations"] = stats.get("evaluations", 0) + 1
            cfg = tuple(cfg) if cfg else None
            for kind, detail in check_case(d, fmt, sort, cfg, tmpdir):
                off = iomodels.describe(d)
                sig = {"format": fmt.split("_")[0], "problem": kind, "config": "default" if cfg is None else "custom"}
                if "bounds" in off:
                    b = d["bounds"]
                    sig["bounds_class"] = ("lb>default_ub" if b[0] > 1000 else "inf" if INF in (abs(b[0]), abs(b[1])) else
                                           "beyond_default" if (b[0] < -1000 or b[1] > 1000) else "within")
                violations.append((sig, {"features": _jl(d), "format": fmt, "sort": sort, "config": list(cfg) if cfg else None},
                                   f"{kind}\nfeatures off default: {off}; format {fmt}; sort {sort}; config {cfg}\n{detail}"))
    return {"violations": violations[:400], "stats": stats}


INF = float("inf")


def _jl(d):
    out = {}
    for k, v in d.items():
        if isinstance(v, tuple):
            v = ["inf" if x == INF else "-inf" if x == -INF else x for x in v]
        out[k] = v
    return out


def _ju(d):
    out = {}
    for k, v in d.items():
        if isinstance(v, list):
            v = tuple(INF if x == "inf" else -INF if x == "-inf" else x for x in v)
        out[k] = v
    return out


def replay(case):
    if "bench_op" in case:
        from ..benchsearch import _t

        with tempfile.TemporaryDirectory(prefix="c11_") as tmpdir:
            op = _t(case["bench_op"]) if case["bench_op"] is not None else None
            probs = check_case({"bench_op": op}, case["format"], case["sort"], None, tmpdir)
        return [{"sig": {"format": case["format"].split("_")[0], "problem": k, "config": "default",
                         "bench_op": case["bench_op"][0] if case["bench_op"] else "none"}, "detail": d} for k, d in probs]
    d = _ju(case["features"])
    with tempfile.TemporaryDirectory(prefix="c11_") as tmpdir:
        probs = check_case(d, case["format"], case["sort"], tuple(case["config"]) if case["config"] else None, tmpdir)
    out = []
    for kind, detail in probs:
        off = iomodels.describe(d)
        sig = {"format": case["format"].split("_")[0], "problem": kind,
               "config": "default" if case["config"] is None else "custom"}
        if "bounds" in off:
            b = d["bounds"]
            sig["bounds_class"] = ("lb>default_ub" if b[0] > 1000 else "inf" if INF in (abs(b[0]), abs(b[1])) else
                                   "beyond_default" if (b[0] < -1000 or b[1] > 1000) else "within")
        out.append({"sig": sig, "detail": detail})
    return out


def explore(ctx):
    k = 2 if ctx.tier == "quick" else 3
    models = list(iomodels.feature_product(1 if ctx.tier == "quick" else 2))
    cases = []
    for d in models:
        for fmt in FORMATS:
            for sort in (False, True):
                cases.append((d, fmt, sort, None))
    # configuration deviations and second-order feature pairs: deviation-bounded
    for d in models:
        if set(iomodels.describe(d)) <= {"bounds", "objective"}:
            for cfg in CONFIG_BOUNDS[1:]:
                for fmt in ("json_str", "yaml_str", "dict", "pickle"):
                    cases.append((d, fmt, False, cfg))
    if ctx.tier == "quick":
        for d in iomodels.feature_product(2, only=("bounds", "objective", "rule", "gene_id", "met_id", "annotation")):
            if len(iomodels.describe(d)) == 2:
                cases.append((d, "json_str", False, None))
                cases.append((d, "yaml_str", True, None))
    # corpus: every bench state reachable with one operation
    from .. import bench
    from ..benchsearch import _l

    bench_ops = [None] + [o for o in bench.alphabet(ctx.tier) if o[0] not in ("enter", "exit", "exit_exc", "optimize",
                                                                           "slim_optimize", "tolerance")]
    for op in bench_ops:
        for fmt in ("json_str", "yaml_str", "dict", "pickle"):
            cases.append(({"bench_op": _l(op) if op is not None else None}, fmt, False, None))
    off = ctx.seed % len(cases)
    cases = cases[off:] + cases[:off]
    chunk = 25
    payloads = [{"cases": cases[i:i + chunk]} for i in range(0, len(cases), chunk)]
    stats = {}
    with ctx.pool(timeout=1200) as pool:
        for i, status, r0 in pool.imap(payloads):
            r = ctx.collect(status, r0)
            if r is None:
                if status in ("abort", "timeout"):
                    for c in payloads[i]["cases"]:
                        (st1, res1), = pool.map([{"cases": [c]}])
                        r1 = ctx.collect(st1, res1)
                        if r1 is None and st1 in ("abort", "timeout"):
                            ctx.violation({"format": c[1].split("_")[0], "problem": "process " + st1,
                                           "features": "bench" if "bench_op" in c[0] else
                                           ("+".join(sorted(iomodels.describe(c[0]))) or "default")},
                                          {"features": _jl(c[0]), "format": c[1], "sort": c[2], "config": None}, st1)
                        elif r1:
                            stats["evaluations"] = stats.get("evaluations", 0) + 1
                continue
            for kk, v in r["stats"].items():
                stats[kk] = stats.get(kk, 0) + v
    ctx.cov.update({
        "states": len(models), "transitions": stats.get("evaluations", 0),
        "traces_validated_against_impl": stats.get("evaluations", 0),
        "evaluations": stats.get("evaluations", 0),
        "distinct_nontrivial": len({str(c[0]) for c in cases if "bench_op" in c[0] or iomodels.describe(c[0])}),
        "bench_corpus_states": len(bench_ops),
        "rule": "feature-product models (ids, bounds, objective, rule, groups, notes, annotation, names; %d values in total) "
                "with bounded deviations from the default x {json str/path/handle+pretty, yaml str/path, dict, pickle} x "
                "sort on/off; Configuration bounds {(-50,50), (-1e6,1e6)} for bound/objective deviations; non-trivial = at "
                "least one feature off default" % sum(len(v) for v in iomodels.FEATURES.values()),
        "exhaustive": True, "models": len(models), "cases": len(cases),
    })
    ctx.sample({"features_off_default": iomodels.describe(models[len(models) // 2]), "format": "json_str"})
    ctx.assumptions += ["gene functional flags and groups are not part of the dict/JSON/YAML formats (not in the property's "
                        "attribute list); groups are compared for pickle only"]
