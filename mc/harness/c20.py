"""C20 - summaries report the fluxes of the solution they describe.

Family members with >= 2 boundary reactions (both spellings, scaled coefficients) x solutions
(default pFBA, FBA, every optimal vertex) x fva (None, 0.9, 1.0, frame) x every metabolite and
reaction; oracle = recomputation from the Solution passed in and the stoichiometry."""
import math
import re
import warnings

from .. import exactlp, families, oracles
from ..exactlp import OPT, fr, solve
from .c04 import _j, _u

PROPERTY = "C20"
LEVEL = "model_checking"
TOL = 1e-6
MENU = [(-10, 10), (0, 10), (-10, 0), (2, 10), (0, 0)]


def optimal_vertices(fba, z, limit=4):
    lp = fba.lp()
    lp.row(fba.cvec(), z, z)
    out, seen = [], set()
    for j in range(len(fba.rxns)):
        for sense in ("max", "min"):
            st, _, x = solve(lp, {j: 1}, sense)
            if st == OPT and tuple(x) not in seen:
                seen.add(tuple(x))
                out.append(x)
    return out[:limit]


def check_model(net, bounds, flip, scale, stats, rich=False):
    import numpy as np
    import pandas as pd
    from cobra.core import Solution
    from cobra.flux_analysis import flux_variability_analysis, pfba

    mets, rxns = families.as_data(net, bounds)
    rxns = [(rid, ({k: 2 * v for k, v in st.items()} if rid in scale else st), lb, ub) for rid, st, lb, ub in rxns]
    ids = [r[0] for r in rxns]
    out = []
    oid = ids[-1]
    fba = exactlp.FBA(mets, rxns, {oid: 1}, "max")
    st, z, _ = fba.optimum()
    if st != OPT:
        return out
    model = families.build_model(mets, rxns, flip=flip)
    osign = -1 if oid in flip else 1
    model.objective = {model.reactions.get_by_id(oid): osign}
    tol = model.tolerance
    # model-side data (flipped reactions: flux and coefficients negated, mass flow identical)
    coef = {rid: {m: (-c if rid in flip else c) for m, c in stc.items()} for rid, stc, _, _ in rxns}
    sgn = {rid: (-1 if rid in flip else 1) for rid in ids}
    boundary = [rid for rid, stc, _, _ in rxns if len(stc) == 1]

    def solution_from(x):
        fl = pd.Series({rid: float(v) * sgn[rid] for rid, v in zip(ids, x)})
        return Solution(float(z), "optimal", fl, pd.Series({r: 0.0 for r in ids}), pd.Series({m: 0.0 for m in mets}))

    with warnings.catch_warnings():
        warnings.simplefilter("ignore")
        sols = [("default", None), ("fba", model.optimize())]
        sols += [("vertex", solution_from(x)) for x in optimal_vertices(fba, z, 4 if rich else 2)]
        # a solution whose own objective_value is not the model objective at its fluxes (pFBA: total flux)
        sols.append(("given_pfba", pfba(model)))
        fva_frame = flux_variability_analysis(model, processes=1) if z >= 0 else None
        default_sol = pfba(model)
    fvas = [("none", None)]
    if z >= 0:
        fvas += [("0.9", 0.9), ("1.0", 1.0), ("frame", fva_frame)]
    exact_ranges = {}
    for fname, fv in fvas:
        if fv is not None:
            frac = 0.9 if fname == "0.9" else 1.0
            lp, _ = oracles.constrained_lp(fba, frac)
            exact_ranges[fname] = oracles.ranges(fba, lp)
    for sname, sol in sols:
        used = default_sol if sol is None else sol
        for fname, fv in fvas:
            case = {"net": [list(c) for c in net], "bounds": [[_j(a), _j(b)] for a, b in bounds], "flip": sorted(flip),
                    "scale": sorted(scale), "solution": sname, "fva": fname}

            def bad(kind, check, detail):
                out.append(({"summary": kind, "check": check, "solution": "default" if sname == "default" else "given",
                             "fva": fname != "none"}, dict(case), f"{detail}\nmodel {rxns} flip {sorted(flip)}\ncase {case}"))

            def expected_ranges(rid, factor):
                lo, hi = exact_ranges[fname][rid]
                lo, hi = float(lo) * sgn[rid], float(hi) * sgn[rid]
                if sgn[rid] < 0:
                    lo, hi = hi, lo
                a, b = lo * factor, hi * factor
                return (min(a, b), max(a, b))

            def check_frames(kind, up, down, items, label):
                """items: {rid: (flux_in_solution, factor)}"""
                rows = {}
                for frame, side in ((up, "up"), (down, "down")):
                    for rid, row in frame.iterrows():
                        if rid in rows:
                            bad(kind, "reaction listed twice", f"{rid}")
                        rows[rid] = (side, row)
                if set(rows) != set(items):
                    bad(kind, "listed reactions differ from the %s" % label, f"{sorted(rows)} vs {sorted(items)}")
                    return
                for rid, (fl, factor) in items.items():
                    side, row = rows[rid]
                    w = fl * factor
                    if abs(w) < tol:
                        w = 0.0
                    want_side = "up" if (w > 0 or (w == 0 and factor > 0)) else "down"
                    if side != want_side:
                        bad(kind, "reaction on the wrong side", f"{rid}: flux*coef={w} factor={factor} listed {side}")
                    if abs(row["flux"] - w) > TOL * max(1, abs(w)):
                        bad(kind, "flux differs from solution flux times coefficient", f"{rid}: {row['flux']} vs {w}")
                    if fv is not None:
                        lo, hi = expected_ranges(rid, factor)
                        if abs(row["minimum"] - lo) > TOL * max(1, abs(lo)) or abs(row["maximum"] - hi) > TOL * max(1, abs(hi)):
                            bad(kind, "range differs from the scaled FVA range",
                                f"{rid}: [{row['minimum']}, {row['maximum']}] vs [{lo}, {hi}]")
                        if fname != "0.9" or sname != "vertex":
                            pass

            def render(kind, s):
                try:
                    a = s.to_string()
                    b = s.to_html()
                    c = s.to_frame()
                    d = s._repr_html_()
                    if not (isinstance(a, str) and isinstance(b, str) and isinstance(d, str) and hasattr(c, "columns")):
                        bad(kind, "rendering returned an unexpected type", "")
                    return a
                except Exception as exc:
                    bad(kind, "rendering raised " + type(exc).__name__, repr(exc))
                    return None

            stats["evaluations"] = stats.get("evaluations", 0) + 1
            # ---- model summary
            try:
                with warnings.catch_warnings():
                    warnings.simplefilter("ignore")
                    ms = model.summary(solution=sol, fva=fv)
            except Exception as exc:
                bad("model", "raised " + type(exc).__name__, repr(exc))
                ms = None
            if ms is not None:
                items = {}
                for rid in boundary:
                    (mid, cf), = coef[rid].items()
                    items[rid] = (float(used.fluxes[rid]), cf)
                check_frames("model", ms.uptake_flux, ms.secretion_flux, items, "boundary reactions")
                text = render("model", ms)
                if text:
                    mo = re.search(r"=\s*(-?[0-9.eE+-]+|nan)\s*$", [ln for ln in text.splitlines() if "=" in ln and oid in ln][0]) \
                        if any("=" in ln and oid in ln for ln in text.splitlines()) else None
                    want = float(used.fluxes[oid]) * osign
                    if mo is None:
                        bad("model", "objective value not found in the text form", text[:300])
                    else:
                        got = float(mo.group(1))
                        if abs(got - want) > 1e-3 * max(1, abs(want)):
                            bad("model", "objective value differs from the solution", f"{got} vs {want}")
                if any(abs(f * c) > tol for f, c in items.values()):
                    stats["nontrivial"] = stats.get("nontrivial", 0) + 1
            # ---- metabolite summaries
            for mid in mets:
                met = model.metabolites.get_by_id(mid)
                try:
                    with warnings.catch_warnings():
                        warnings.simplefilter("ignore")
                        s = met.summary(solution=sol, fva=fv)
                except Exception as exc:
                    bad("metabolite", "raised " + type(exc).__name__, repr(exc))
                    continue
                items = {rid: (float(used.fluxes[rid]), coef[rid][mid]) for rid in ids if mid in coef[rid]}
                check_frames("metabolite", s.producing_flux, s.consuming_flux, items, "reactions of the metabolite")
                p, c = s.producing_flux["flux"].sum(), s.consuming_flux["flux"].sum()
                if abs(p + c) > 1e-5 * max(1, abs(p)):
                    bad("metabolite", "producing and consuming totals do not balance", f"{p} vs {c}")
                for frame, name in ((s.producing_flux, "producing"), (s.consuming_flux, "consuming")):
                    tot = frame["flux"].abs().sum()
                    if tot > tol and abs(frame["percent"].sum() - 1) > 1e-9:
                        bad("metabolite", "percentages do not sum to one", f"{name}: {frame['percent'].sum()}")
                render("metabolite", s)
            # ---- reaction summaries
            for rid in ids:
                try:
                    with warnings.catch_warnings():
                        warnings.simplefilter("ignore")
                        s = model.reactions.get_by_id(rid).summary(solution=sol, fva=fv)
                    render("reaction", s)
                except Exception as exc:
                    bad("reaction", "raised " + type(exc).__name__, repr(exc))
    return out


def run_task(payload):
    P = payload["params"]
    stats, violations = {}, []
    for net in payload["nets"]:
        net = tuple(tuple(c) for c in net)
        ids = families.rxn_ids(net)
        bnd = [i for i, c in zip(ids, net) if families.is_boundary(c)]
        for bounds in families.bound_assignments(net, P["d"] if len(net) <= 3 else 0, P["menu"]):
            for flip, scale in (((), ()), ((bnd[0],), ()), (tuple(bnd), (bnd[-1],)), ((), (bnd[0], ids[-1]))):
                stats["models"] = stats.get("models", 0) + 1
                violations.extend(check_model(net, bounds, set(flip), set(scale), stats, payload.get("rich", False)))
    return {"violations": violations[:300], "stats": stats}


def replay(case):
    import json

    net = tuple(tuple(c) for c in case["net"])
    bounds = tuple((_u(a), _u(b)) for a, b in case["bounds"])
    out = check_model(net, bounds, set(case["flip"]), set(case["scale"]), {}, rich=True)
    return [{"sig": s, "detail": d} for s, c, d in out if json.loads(json.dumps(c)) == case]


def explore(ctx):
    P = dict(nm=3, nr=4 if ctx.thorough else 3, K=(-1, 0, 1), d=1, menu=MENU)
    n_self = exactlp.selftest(limit=3000)
    nets = [n for n in families.networks(P["nm"], P["nr"], P["K"])
            if sum(1 for c in n if families.is_boundary(c)) >= 2]
    off = ctx.seed % len(nets)
    nets = nets[off:] + nets[:off]
    payloads = [{"params": P, "nets": nets[i:i + 1], "rich": ctx.thorough} for i in range(len(nets))]
    stats = {}
    with ctx.pool(timeout=3000) as pool:
        for i, status, r0 in pool.imap(payloads):
            r = ctx.collect(status, r0)
            if r is None:
                if status in ("abort", "timeout"):
                    ctx.violation({"summary": "", "check": "worker " + status}, {"nets": payloads[i]["nets"]}, status)
                continue
            for k, v in r["stats"].items():
                stats[k] = stats.get(k, 0) + v
    ctx.cov.update({
        "states": stats.get("models", 0), "transitions": stats.get("evaluations", 0),
        "traces_validated_against_impl": stats.get("evaluations", 0),
        "evaluations": stats.get("evaluations", 0), "distinct_nontrivial": stats.get("nontrivial", 0),
        "rule": "members of F(nm=%d, nr<=%d) with >=2 boundary reactions x bounds (<=1 deviation over %d) x spellings "
                "(flipped boundary reactions, doubled coefficients) x solutions (default pFBA, FBA, optimal vertices wrapped "
                "in Solution) x fva (None, 0.9, 1.0, precomputed frame) x model summary + every metabolite and reaction "
                "summary; non-trivial = some boundary flux non-zero" % (P["nm"], P["nr"], len(P["menu"])),
        "exhaustive": True, "networks": len(nets), "models": stats.get("models", 0), "exactlp_selftest_lps": n_self,
    })
    ctx.sample({"net": [list(c) for c in nets[0]]})
    ctx.assumptions += ["objective value of the model summary is read from its text form (no public accessor)"]
