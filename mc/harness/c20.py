"""C20 - summaries report the fluxes of the solution they describe.

Family members with >= 2 boundary reactions (both spellings, scaled coefficients) x solutions
(default pFBA, FBA, every optimal vertex) x fva (None, 0.9, 1.0, frame) x every metabolite and
reaction; oracle = recomputation from the Solution passed in and the stoichiometry."""
import math
import re
import warnings

from .. import exactlp, families, oracles
from ..exactlp import OPT, fr, solve
from .c04 import _j, _u

PROPERTY = "C20"
LEVEL = "model_checking"
TOL = 1e-6
MENU = [(-10, 10), (0, 10), (-10, 0), (2, 10), (0, 0)]


RENDERERS = [
    ("to_string", lambda s: s.to_string()),
    ("to_html", lambda s: s.to_html()),
    ("to_frame", lambda s: s.to_frame()),
    ("_repr_html_", lambda s: s._repr_html_()),
    ("to_string(names=True)", lambda s: s.to_string(names=True)),
    ("to_html(names=True)", lambda s: s.to_html(names=True)),
    ("to_string(threshold=1e-3)", lambda s: s.to_string(threshold=1e-3)),
]


def _pair_walk(n):
    """Closed walk through every ordered pair (i, j), i, j < n (Eulerian circuit of the complete digraph with loops)."""
    out_edges = {i: list(range(n)) for i in range(n)}
    stack, walk = [0], []
    while stack:
        v = stack[-1]
        if out_edges[v]:
            stack.append(out_edges[v].pop())
        else:
            walk.append(stack.pop())
    return walk[::-1]


PAIR_WALK = _pair_walk(len(RENDERERS))
SHORT_SEQ = [0, 5, 2, 3, 0]   # to_string, to_html(names=True), to_frame, _repr_html_ (= to_html()), to_string again
MIN_SEQ = [0, 2]              # to_string, to_frame (summaries that differ from a fully rendered one only in the ranges)


def optimal_vertices(fba, z, limit=4):
    lp = fba.lp()
    lp.row(fba.cvec(), z, z)
    out, seen = [], set()
    for j in range(len(fba.rxns)):
        for sense in ("max", "min"):
            st, _, x = solve(lp, {j: 1}, sense)
            if st == OPT and tuple(x) not in seen:
                seen.add(tuple(x))
                out.append(x)
    return out[:limit]


def check_model(net, bounds, flip, scale, stats, rich=False, origin=None):
    out = _check_model(net, bounds, flip, scale, stats, rich, origin)
    if origin:
        for sg, cs, _ in out:
            sg["origin"] = origin
            cs["origin"] = origin
    return out


def _check_model(net, bounds, flip, scale, stats, rich=False, origin=None):
    import numpy as np
    import pandas as pd
    from cobra.core import Solution
    from cobra.flux_analysis import flux_variability_analysis, pfba

    mets, rxns = families.as_data(net, bounds)
    rxns = [(rid, ({k: 2 * v for k, v in st.items()} if rid in scale else st), lb, ub) for rid, st, lb, ub in rxns]
    ids = [r[0] for r in rxns]
    out = []
    oid = ids[-1]
    fba = exactlp.FBA(mets, rxns, {oid: 1}, "max")
    st, z, _ = fba.optimum()
    if st != OPT:
        return out
    model = families.build_model(mets, rxns, flip=flip)
    osign = -1 if oid in flip else 1
    model.objective = {model.reactions.get_by_id(oid): osign}
    if origin:
        # the same model reached by another public route (mc/origins.py)
        from .. import origins

        try:
            model = origins.derive(model, origin)
        except origins.OriginUnavailable:
            stats["origin_unavailable"] = stats.get("origin_unavailable", 0) + 1
            return out
    tol = model.tolerance
    # model-side data (flipped reactions: flux and coefficients negated, mass flow identical)
    coef = {rid: {m: (-c if rid in flip else c) for m, c in stc.items()} for rid, stc, _, _ in rxns}
    sgn = {rid: (-1 if rid in flip else 1) for rid in ids}
    boundary = [rid for rid, stc, _, _ in rxns if len(stc) == 1]

    def solution_from(x):
        fl = pd.Series({rid: float(v) * sgn[rid] for rid, v in zip(ids, x)})
        return Solution(float(z), "optimal", fl, pd.Series({r: 0.0 for r in ids}), pd.Series({m: 0.0 for m in mets}))

    with warnings.catch_warnings():
        warnings.simplefilter("ignore")
        sols = [("default", None), ("fba", model.optimize())]
        if len({next(iter(stc)) for _, stc, _, _ in rxns if len(stc) == 1}) < len(boundary):
            # parallel boundary reactions of one metabolite: the default (pFBA) solution is not unique and the one a
            # summary computes for itself cannot be known from outside - only given solutions are judged
            sols = sols[1:]
        sols += [("vertex", solution_from(x)) for x in optimal_vertices(fba, z, 4 if rich else 2)]
        # a solution whose own objective_value is not the model objective at its fluxes (pFBA: total flux)
        sols.append(("given_pfba", pfba(model)))
        # a user-edited solution (not a steady state any more): the tables still report flux x coefficient and the
        # percentages of each side still sum to one; only the balance of the two totals is no longer implied
        ed = model.optimize()
        ed.fluxes = ed.fluxes.copy()
        ed.fluxes[ids[0]] = ed.fluxes[ids[0]] + 1.5
        ed.fluxes[ids[-1]] = ed.fluxes[ids[-1]] * 0.5 - 0.25
        sols.append(("edited", ed))
        fva_frame = flux_variability_analysis(model, processes=1) if z >= 0 else None
        # a frame with wide ranges (half of the optimum suffices): the same object is handed to every summary in turn
        fva_half = flux_variability_analysis(model, fraction_of_optimum=0.5, processes=1) if z >= 0 else None
        default_sol = pfba(model)
    fvas = [("none", None)]
    if z >= 0:
        fvas += [("0.9", 0.9), ("1.0", 1.0), ("frame", fva_frame), ("frame_half", fva_half)]
    exact_ranges = {}
    for fname, fv in fvas:
        if fv is not None:
            frac = {"0.9": 0.9, "frame_half": 0.5}.get(fname, 1.0)
            lp, _ = oracles.constrained_lp(fba, frac)
            exact_ranges[fname] = oracles.ranges(fba, lp)
    for sname, sol in sols:
        used = default_sol if sol is None else sol
        for fname, fv in fvas:
            if sname == "edited" and fname in ("0.9", "1.0"):
                continue    # the ranges do not depend on the solution; saves two FVA runs per summary
            case = {"net": [list(c) for c in net], "bounds": [[_j(a), _j(b)] for a, b in bounds], "flip": sorted(flip),
                    "scale": sorted(scale), "solution": sname, "fva": fname}

            def bad(kind, check, detail):
                out.append(({"summary": kind, "check": check, "solution": "default" if sname == "default" else "given",
                             "fva": fname != "none"}, dict(case), f"{detail}\nmodel {rxns} flip {sorted(flip)}\ncase {case}"))

            def expected_ranges(rid, factor):
                lo, hi = exact_ranges[fname][rid]
                lo, hi = float(lo) * sgn[rid], float(hi) * sgn[rid]
                if sgn[rid] < 0:
                    lo, hi = hi, lo
                a, b = lo * factor, hi * factor
                return (min(a, b), max(a, b))

            def check_frames(kind, up, down, items, label):
                """items: {rid: (flux_in_solution, factor)}"""
                rows = {}
                for frame, side in ((up, "up"), (down, "down")):
                    for rid, row in frame.iterrows():
                        if rid in rows:
                            bad(kind, "reaction listed twice", f"{rid}")
                        rows[rid] = (side, row)
                if set(rows) != set(items):
                    bad(kind, "listed reactions differ from the %s" % label, f"{sorted(rows)} vs {sorted(items)}")
                    return
                for rid, (fl, factor) in items.items():
                    side, row = rows[rid]
                    w = fl * factor
                    if abs(w) < tol:
                        w = 0.0
                    want_side = "up" if (w > 0 or (w == 0 and factor > 0)) else "down"
                    if side != want_side:
                        bad(kind, "reaction on the wrong side", f"{rid}: flux*coef={w} factor={factor} listed {side}")
                    if abs(row["flux"] - w) > TOL * max(1, abs(w)):
                        bad(kind, "flux differs from solution flux times coefficient", f"{rid}: {row['flux']} vs {w}")
                    if fv is not None:
                        lo, hi = expected_ranges(rid, factor)
                        if abs(row["minimum"] - lo) > TOL * max(1, abs(lo)) or abs(row["maximum"] - hi) > TOL * max(1, abs(hi)):
                            bad(kind, "range differs from the scaled FVA range",
                                f"{rid}: [{row['minimum']}, {row['maximum']}] vs [{lo}, {hi}]")
                        if fname != "0.9" or sname != "vertex":
                            pass

            def render(kind, s, walk=False):
                """Rendering calls are observers: whatever their order, each must succeed, return the same
                value as on first use and leave the public frames of the summary untouched.  `walk` follows a
                closed walk through every ordered pair of RENDERERS (so every call is tried after every other
                one on the same object); otherwise SHORT_SEQ."""
                def frames():
                    return {k: (tuple(v.columns), tuple(v.index), repr(v.to_numpy().tolist()))
                            for k, v in vars(s).items() if isinstance(v, pd.DataFrame)}

                state0 = frames()
                first = {}
                seq = PAIR_WALK if walk else SHORT_SEQ if fname in ("none", "frame_half") else MIN_SEQ
                text = None
                for pos, k in enumerate(seq):
                    name, fn = RENDERERS[k]
                    prev = RENDERERS[seq[pos - 1]][0] if pos else "(fresh)"
                    try:
                        val = fn(s)
                    except Exception as exc:
                        bad(kind, "rendering raised " + type(exc).__name__, f"{name} after {prev}: {exc!r}")
                        return text
                    if name == "to_frame":
                        ok = hasattr(val, "columns")
                        val = (tuple(val.columns), tuple(val.index), repr(val.to_numpy().tolist()))
                    else:
                        ok = isinstance(val, str)
                    if not ok:
                        bad(kind, "rendering returned an unexpected type", name)
                        return text
                    if name == "to_string":
                        text = val
                    if k not in first:
                        first[k] = val
                    elif first[k] != val:
                        bad(kind, "rendering depends on earlier rendering calls", f"{name} after {prev} differs from its first result")
                        return text
                    if frames() != state0:
                        bad(kind, "rendering modified the summary's public frames", f"{name}: {sorted(k for k, v in frames().items() if v != state0.get(k))}")
                        return text
                if walk and kind in ("model", "metabolite") and 0 in first and 1 in first:
                    # a summary describes the solution and the model it was made from: editing the model afterwards (a
                    # reaction renamed, a coefficient changed - both taken back) does not change what it renders
                    try:
                        rid0 = str(s.to_frame().index[0][-1] if isinstance(s.to_frame().index[0], tuple) else s.to_frame().index[0])
                    except Exception:
                        rid0 = None
                    if rid0 is not None and rid0 in model.reactions:
                        r0 = model.reactions.get_by_id(rid0)
                        met0 = next(iter(r0.metabolites))
                        r0.id = rid0 + "_renamed"
                        r0.add_metabolites({met0: 1.5})
                        stats["renderings_after_model_edit"] = stats.get("renderings_after_model_edit", 0) + 1
                        try:
                            for k in (0, 1):
                                name, fn = RENDERERS[k]
                                try:
                                    val = fn(s)
                                except Exception as exc:
                                    bad(kind, "rendering after an edit of the model raised " + type(exc).__name__, f"{name}: {exc!r}")
                                    break
                                if val != first[k]:
                                    bad(kind, "rendering changed after an edit of the model", name)
                                    break
                        finally:
                            r0.add_metabolites({met0: -1.5})
                            r0.id = rid0
                return text

            stats["evaluations"] = stats.get("evaluations", 0) + 1
            # ---- model summary
            try:
                with warnings.catch_warnings():
                    warnings.simplefilter("ignore")
                    ms = model.summary(solution=sol, fva=fv)
            except Exception as exc:
                bad("model", "raised " + type(exc).__name__, repr(exc))
                ms = None
            if ms is not None:
                items = {}
                for rid in boundary:
                    (mid, cf), = coef[rid].items()
                    items[rid] = (float(used.fluxes[rid]), cf)
                check_frames("model", ms.uptake_flux, ms.secretion_flux, items, "boundary reactions")
                text = render("model", ms, walk=(sname == "fba" and fname in ("none", "frame")))
                if text:
                    mo = re.search(r"=\s*(-?[0-9.eE+-]+|nan)\s*$", [ln for ln in text.splitlines() if "=" in ln and oid in ln][0]) \
                        if any("=" in ln and oid in ln for ln in text.splitlines()) else None
                    want = float(used.fluxes[oid]) * osign
                    if mo is None:
                        bad("model", "objective value not found in the text form", text[:300])
                    else:
                        got = float(mo.group(1))
                        if abs(got - want) > 1e-3 * max(1, abs(want)):
                            bad("model", "objective value differs from the solution", f"{got} vs {want}")
                if any(abs(f * c) > tol for f, c in items.values()):
                    stats["nontrivial"] = stats.get("nontrivial", 0) + 1
            # ---- metabolite summaries
            for mid in mets:
                met = model.metabolites.get_by_id(mid)
                try:
                    with warnings.catch_warnings():
                        warnings.simplefilter("ignore")
                        s = met.summary(solution=sol, fva=fv)
                except Exception as exc:
                    bad("metabolite", "raised " + type(exc).__name__, repr(exc))
                    continue
                items = {rid: (float(used.fluxes[rid]), coef[rid][mid]) for rid in ids if mid in coef[rid]}
                check_frames("metabolite", s.producing_flux, s.consuming_flux, items, "reactions of the metabolite")
                p, c = s.producing_flux["flux"].sum(), s.consuming_flux["flux"].sum()
                if sname != "edited" and abs(p + c) > 1e-5 * max(1, abs(p)):
                    bad("metabolite", "producing and consuming totals do not balance", f"{p} vs {c}")
                for frame, name in ((s.producing_flux, "producing"), (s.consuming_flux, "consuming")):
                    tot = frame["flux"].abs().sum()
                    if tot > tol and abs(frame["percent"].sum() - 1) > 1e-9:
                        bad("metabolite", "percentages do not sum to one", f"{name}: {frame['percent'].sum()}")
                render("metabolite", s, walk=(sname == "fba" and mid == mets[0] and fname in ("none", "frame")))
            # ---- reaction summaries
            for rid in ids:
                try:
                    with warnings.catch_warnings():
                        warnings.simplefilter("ignore")
                        s = model.reactions.get_by_id(rid).summary(solution=sol, fva=fv)
                    render("reaction", s, walk=(sname == "fba"))
                except Exception as exc:
                    bad("reaction", "raised " + type(exc).__name__, repr(exc))
    return out


def run_task(payload):
    P = payload["params"]
    stats, violations = {}, []
    for net in payload["nets"]:
        net = tuple(tuple(c) for c in net)
        ids = families.rxn_ids(net)
        bnd = [i for i, c in zip(ids, net) if families.is_boundary(c)]
        k, n = payload.get("slice", (0, 1))
        for j, bounds in enumerate(families.bound_assignments(net, P["d"] if len(net) <= 3 else 0, P["menu"])):
            if j % n != k:
                continue
            if payload.get("origins"):
                from .. import origins

                for origin in origins.ORIGINS:
                    stats["models_from_origins"] = stats.get("models_from_origins", 0) + 1
                    violations.extend(check_model(net, bounds, {bnd[0]}, {bnd[-1]}, stats, False, origin))
                continue
            for flip, scale in (((), ()), ((bnd[0],), ()), (tuple(bnd), (bnd[-1],)), ((), (bnd[0], ids[-1]))):
                stats["models"] = stats.get("models", 0) + 1
                violations.extend(check_model(net, bounds, set(flip), set(scale), stats, payload.get("rich", False)))
    return {"violations": violations[:300], "stats": stats}


def replay(case):
    import json

    net = tuple(tuple(c) for c in case["net"])
    bounds = tuple((_u(a), _u(b)) for a, b in case["bounds"])
    out = check_model(net, bounds, set(case["flip"]), set(case["scale"]), {}, rich=True, origin=case.get("origin"))
    return [{"sig": s, "detail": d} for s, c, d in out if json.loads(json.dumps(c)) == case]


def explore(ctx):
    P = dict(nm=3, nr=4 if ctx.thorough else 3, K=(-1, 0, 1), d=1, menu=MENU)
    n_self = exactlp.selftest(limit=3000)
    nets = [n for n in families.networks(P["nm"], P["nr"], P["K"])
            if sum(1 for c in n if families.is_boundary(c)) >= 2]
    # shapes that the symmetry-reduced family leaves out: several boundary reactions of one metabolite (uptake and
    # secretion written as two reactions, a demand next to a sink, the duplicate first / in the middle / last in id order)
    nets += [((1, 0, 0), (-1, 0, 0), (-1, 1, 0), (0, -1, 0)),
             ((1, 0, 0), (-1, 1, 0), (0, -1, 0), (0, -1, 0)),
             ((1, 0, 0), (0, -1, 0), (-1, 1, 0), (1, 0, 0)),
             ((0, -1, 0), (1, 0, 0), (0, 1, 0), (-1, 1, 0), (0, -1, 0))]
    off = ctx.seed % len(nets)
    nets = nets[off:] + nets[:off]
    # (the bound assignments of one network are dealt out to six tasks: wall time is the longest task)
    payloads = [{"params": P, "nets": nets[i:i + 1], "rich": ctx.thorough, "slice": (k, 6)} for i in range(len(nets))
                for k in range(6)]
    # origins: three-reaction members (one boundary reaction written backwards, one with doubled coefficients), default
    # bounds, reached by every other public route
    from .. import origins

    no = [n for n in nets if len(n) == 3]
    if ctx.tier == "quick":
        no = no[::3]
    no += [n for n in nets if len(n) == 4][:1]
    payloads += [{"params": dict(P, d=0), "nets": no[i:i + 1], "origins": True} for i in range(len(no))]
    stats = {}
    with ctx.pool(timeout=3000) as pool:
        for i, status, r0 in pool.imap(payloads):
            r = ctx.collect(status, r0)
            if r is None:
                if status in ("abort", "timeout"):
                    ctx.violation({"summary": "", "check": "worker " + status}, {"nets": payloads[i]["nets"]}, status)
                continue
            for k, v in r["stats"].items():
                stats[k] = stats.get(k, 0) + v
    ctx.cov.update({
        "states": stats.get("models", 0), "transitions": stats.get("evaluations", 0),
        "traces_validated_against_impl": stats.get("evaluations", 0),
        "evaluations": stats.get("evaluations", 0), "distinct_nontrivial": stats.get("nontrivial", 0),
        "rule": "members of F(nm=%d, nr<=%d) with >=2 boundary reactions x bounds (<=1 deviation over %d) x spellings "
                "(flipped boundary reactions, doubled coefficients) x solutions (default pFBA, FBA, optimal vertices wrapped "
                "in Solution) x fva (None, 0.9, 1.0, precomputed frame) x model summary + every metabolite and reaction "
                "summary; non-trivial = some boundary flux non-zero" % (P["nm"], P["nr"], len(P["menu"])),
        "exhaustive": True, "networks": len(nets), "models": stats.get("models", 0), "exactlp_selftest_lps": n_self,
        "origins_pass": "%d three-reaction networks x %d origins (%s): %d models; route itself failed for %d" % (
            len(no), len(origins.ORIGINS), ", ".join(origins.ORIGINS), stats.get("models_from_origins", 0),
            stats.get("origin_unavailable", 0)),
    })
    ctx.sample({"net": [list(c) for c in nets[0]]})
    ctx.assumptions += ["objective value of the model summary is read from its text form (no public accessor)"]
