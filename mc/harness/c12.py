"""C12 - a copy is equivalent to its original and shares nothing with it.

Pair exploration: (prefix) . copy mechanism . operations applied to either side.  At copy
time the two models must be observably equal, consist of distinct objects pointing at
their own model, and their reachable mutable object graphs must be disjoint; after every
later step the side that was not touched must be unchanged.
"""
import copy
import itertools
import pickle
import types
import warnings

from .. import bench, observe
from ..benchsearch import _l, _t, normalise, variant

PROPERTY = "C12"
LEVEL = "model_checking"

MECHS = ("copy", "deepcopy", "pickle")

EXTRA_OPS = [
    ("set_compartments", (("c", "renamed"),)), ("annot", "met", "A", "kegg.compound", "C99999"),
    ("annot_append", "met", "A", "chebi"), ("annot", "rxn", "r1", "ec-code", "9.9.9.9"),
    ("annot_append", "rxn", "r1", "kegg.reaction"), ("annot", "gene", "g1", "ncbigene", "1"),
    ("annot", "group", "G1", "sbo", "SBO:1"), ("annot", "model", None, "taxonomy", "562"),
    ("notes", "met", "A", "k", "v"), ("notes", "rxn", "r1", "k", "v"), ("notes", "gene", "g1", "k", "v"),
    ("notes", "model", None, "k", "v"), ("notes", "group", "G1", "k", "v"),
    ("group_add_member", "G1", "r2"), ("group_remove_member", "G1", "r1"),
    ("set_attr", "met", "A", "formula", "CH4"), ("set_attr", "met", "A", "charge", 2),
    ("set_attr", "met", "A", "compartment", "x"), ("set_attr", "rxn", "r1", "name", "renamed"),
    ("set_attr", "rxn", "r1", "subsystem", "S9"), ("set_attr", "gene", "g1", "name", "gene one"),
    ("set_attr", "model", None, "name", "renamed model"), ("pfba",), ("fva",),
]
# operations of one model that are handed an object of the other one (the same id exists in both, or - after an earlier
# step - only in the other): the actor must end up with objects of its own
FOREIGN_OPS = [
    ("foreign_add_mets", "r1", "C", 1), ("foreign_add_mets", "r1", "X", 1), ("foreign_add_mets", "r2", "B", 2),
    ("foreign_iadd", "r1", "r2"), ("foreign_remove_rxns", "r2"),
    # (remove_metabolites is documented for metabolite objects of the model itself: a foreign object there is a caller
    # error - the first version of this menu had it and it edits the other model's reactions - not part of the menu)
]

PREFIXES = [(), (("add_rxns", ("r3",)),), (("remove_rxns", (("obj", "r1"),), False),),
            (("rule", "r1", "g1 or g3"),), (("gene_ko", "g1"),), (("add_cons_vars", "uv2"),),
            (("solver", "glpk_exact"),), (("optimize",),), (("add_groups", ("G2",)),),
            (("enter",),), (("enter",), ("lb", "r1", 2)), (("enter",), ("add_rxns", ("r3",))),
            (("enter",), ("remove_rxns", (("obj", "r1"),), False)),
            (("add_mets", "r1", ((("obj", "X"), 1),), True),), (("h_pickle",),), (("h_copy",),)]


def _target(S, kind, ident):
    m = S.model
    if kind == "model":
        return m
    lst = {"met": m.metabolites, "rxn": m.reactions, "gene": m.genes, "group": m.groups}[kind]
    if ident not in lst:
        raise bench.Disabled(ident)
    return lst.get_by_id(ident)


def apply_any(S, op, other=None):
    k = op[0]
    m = S.model
    if k.startswith("foreign_"):
        om = other.model
        if k == "foreign_add_mets":
            if op[2] not in om.metabolites:
                raise bench.Disabled(op[2])
            S.rxn(op[1]).add_metabolites({om.metabolites.get_by_id(op[2]): op[3]})
        elif k == "foreign_iadd":
            if op[2] not in om.reactions:
                raise bench.Disabled(op[2])
            r = S.rxn(op[1])
            r += om.reactions.get_by_id(op[2])
        elif k == "foreign_remove_rxns":
            if op[1] not in om.reactions:
                raise bench.Disabled(op[1])
            S.rxn(op[1])
            m.remove_reactions([om.reactions.get_by_id(op[1])])
        elif k == "foreign_remove_mets":
            if op[1] not in om.metabolites or op[1] not in m.metabolites:
                raise bench.Disabled(op[1])
            m.remove_metabolites([om.metabolites.get_by_id(op[1])])
    elif k == "set_compartments":
        m.compartments = dict(op[1])
    elif k == "annot":
        _target(S, op[1], op[2]).annotation[op[3]] = op[4]
    elif k == "annot_append":
        a = _target(S, op[1], op[2]).annotation
        v = a.get(op[3])
        if isinstance(v, list):
            v.append("extra")
        else:
            a[op[3]] = ["first"]
    elif k == "notes":
        _target(S, op[1], op[2]).notes[op[3]] = op[4]
    elif k == "group_add_member":
        g = _target(S, "group", op[1])
        g.add_members([S.rxn(op[2])])
    elif k == "group_remove_member":
        g = _target(S, "group", op[1])
        r = S.rxn(op[2])
        if r not in g.members:
            raise bench.Disabled(op[2])
        g.remove_members([r])
    elif k == "set_attr":
        setattr(_target(S, op[1], op[2]), op[3], op[4])
    elif k == "pfba":
        from cobra.flux_analysis import pfba
        pfba(m)
    elif k == "fva":
        from cobra.flux_analysis import flux_variability_analysis
        flux_variability_analysis(m, processes=1)
    else:
        bench.apply_op(S, op)


def make_copy(S, mech):
    m = S.model
    if mech == "copy":
        new = m.copy()
    elif mech == "deepcopy":
        new = copy.deepcopy(m)
    else:
        new = pickle.loads(pickle.dumps(m))
    S2 = bench.Session.__new__(bench.Session)
    S2.interface0 = S.interface0
    S2.model = new
    S2.user_cols = set(S.user_cols)
    S2.user_rows = set(S.user_rows)
    S2.stack = []
    S2.trail = []
    S2.pool = {}
    S2.removed = {}
    S2.other = bench.build_other(S.interface0)
    S2._fresh_pool()
    return S2


def full_view(S, ordered=True):
    v = observe.python_view(S.model)
    raw = observe.raw_lp(S.model)
    return v, observe.lp_canonical(raw, ordered=ordered), raw


_SKIP_TYPES = (str, bytes, int, float, complex, bool, type(None), types.ModuleType, types.FunctionType,
               types.BuiltinFunctionType, types.MethodType, type, frozenset, range)


def mutable_graph(model):
    """id -> label of every mutable object reachable from the model (solver handled separately).

    The label is '<nearest cobra object type>.<attribute chain>', e.g. 'Metabolite.notes'."""
    import cobra
    from cobra.core.object import Object

    cfg = cobra.Configuration()
    seen = {}
    stack = [(model, type(model).__name__)]
    while stack:
        obj, path = stack.pop()
        if isinstance(obj, _SKIP_TYPES) or obj is cfg:
            continue
        if id(obj) in seen:
            continue
        mod = type(obj).__module__ or ""
        if mod.startswith(("optlang", "swiglpk", "sympy", "symengine", "logging", "threading")):
            continue
        if isinstance(obj, Object):
            path = type(obj).__name__
        if isinstance(obj, tuple):
            for x in obj:
                stack.append((x, path + "[]"))
            continue
        seen[id(obj)] = path
        if isinstance(obj, dict):
            for k, v in obj.items():
                stack.append((k, path + ".key"))
                stack.append((v, path + "[]"))
        elif isinstance(obj, (list, set)):
            for x in obj:
                stack.append((x, path + "[]"))
        d = getattr(obj, "__dict__", None)
        if isinstance(d, dict):
            for k, v in d.items():
                if k in ("_solver", "_contexts"):
                    continue
                stack.append((v, f"{path}.{k}"))
    return seen


def copy_time_problems(S, S2):
    P = []
    v1, lp1, raw1 = full_view(S, ordered=False)
    v2, lp2, raw2 = full_view(S2, ordered=False)
    u1, u2 = observe.unordered(v1), observe.unordered(v2)
    u1["context_depth"] = u2["context_depth"] = 0
    d = observe.diff(u1, u2)
    if d:
        P.append(("copy differs from original at " + observe.first_path(d), "\n".join(d)))
    if lp1 != lp2:
        from .c03 import lp_diff

        ld = lp_diff(raw1, raw2)
        if ld:
            P.append(("solver problem of the copy differs at " + normalise(observe.first_path(ld)), "\n".join(ld)))
    m1, m2 = S.model, S2.model
    if m1.solver is m2.solver or m1.solver.problem is m2.solver.problem:
        P.append(("copy shares the solver object", ""))
    for attr in ("reactions", "metabolites", "genes", "groups"):
        for x in getattr(m2, attr):
            if x.id in getattr(m1, attr) and getattr(m1, attr).get_by_id(x.id) is x:
                P.append((f"copy shares {attr} object", x.id))
            if getattr(x, "_model", None) is not m2:
                P.append((f"{attr} of the copy do not point at the copy", x.id))
    xr = observe.xref_problems(m2)
    if xr:
        P.append(("cross-references of the copy: " + normalise(xr[0]), "\n".join(xr[:5])))
    lpp = observe.lp_problems(m2, S2.user_cols, S2.user_rows, raw=raw2)
    if lpp:
        P.append(("solver problem of the copy inconsistent: " + normalise(lpp[0]), "\n".join(lpp[:5])))
    g1, g2 = mutable_graph(m1), mutable_graph(m2)
    shared = sorted({g1[i] for i in set(g1) & set(g2)})
    for kd in shared[:8]:
        P.append(("copy shares mutable object " + kd, kd))
    try:
        o1 = m1.slim_optimize()
        o2 = m2.slim_optimize()
        if not (o1 == o2 or abs(o1 - o2) <= 1e-9 * max(1, abs(o1)) or (o1 != o1 and o2 != o2)):
            P.append(("optimum of the copy differs", f"{o1} vs {o2}"))
    except Exception as exc:
        P.append(("optimising original/copy raised " + type(exc).__name__, repr(exc)))
    return P


def run_case(interface, prefix, mech, steps):
    """steps: sequence of (side, op) with side in 'o' (original) / 'c' (copy)."""
    S = bench.Session(interface)
    bench.run_history(S, prefix)
    try:
        S2 = make_copy(S, mech)
    except Exception as exc:
        return [("copying raised " + type(exc).__name__, repr(exc))], 0
    problems = copy_time_problems(S, S2)
    if problems:
        return problems, 0
    executed = 0
    sides = {"o": S, "c": S2}
    for side, op in steps:
        actor, other = sides[side], sides["c" if side == "o" else "o"]
        try:
            before = full_view(other)
        except Exception as exc:
            return [("state unobservable: " + type(exc).__name__, repr(exc))], executed
        try:
            with warnings.catch_warnings():
                warnings.simplefilter("ignore")
                apply_any(actor, op, other)
        except bench.Disabled:
            continue
        except Exception:
            pass
        executed += 1
        try:
            after = full_view(other)
        except Exception as exc:
            return [("other model unobservable after the edit: " + type(exc).__name__, repr(exc))], executed
        d = observe.diff(before[0], after[0])
        if d:
            problems.append(("edit of one model changed the other at " + observe.first_path(d), "\n".join(d)))
        elif before[1] != after[1]:
            from .c03 import lp_diff

            ld = lp_diff(before[2], after[2])
            problems.append(("edit of one model changed the other's solver problem at " +
                             normalise(observe.first_path(ld)), "\n".join(ld)))
        if problems:
            break
    return problems, executed


def sig_of(prefix, mech, steps, problems):
    return {"mech": mech, "prefix": "; ".join(o[0] for o in prefix),
            "steps": "; ".join("%s:%s[%s]" % (s, o[0], variant(o) if o[0] not in
                               ("annot", "notes", "set_attr", "annot_append") else o[1]) for s, o in steps),
            "problem": problems[0][0]}


def minimise(interface, prefix, mech, steps, problems):
    kind = problems[0][0]
    if kind.startswith(("copy ", "solver problem of the copy", "cross-references of the copy", "copying",
                        "optimum", "reactions of", "metabolites of", "genes of", "groups of")):
        steps = ()
    changed = True
    while changed and steps:
        changed = False
        for i in range(len(steps)):
            cand = steps[:i] + steps[i + 1:]
            p, _ = run_case(interface, prefix, mech, cand)
            if p and p[0][0] == kind:
                steps, problems, changed = cand, p, True
                break
    if prefix:
        p, _ = run_case(interface, (), mech, steps)
        if p and p[0][0] == kind:
            prefix, problems = (), p
    return prefix, steps, problems


def object_copy_problems(interface, prefix):
    """Reaction.copy / Metabolite.copy / + - * : operands unchanged, result detached."""
    P = []
    S = bench.Session(interface)
    bench.run_history(S, prefix)
    m = S.model
    n = 0
    # reactions of the model, and reactions that the history removed from it (they still hold the model's metabolites
    # and genes): copying or combining them must leave the model alone as well
    detached = [o for o in S.removed.values() if getattr(o, "_model", None) is None and o.id not in m.reactions]
    for r in list(m.reactions) + detached:
        # (sum() starts from 0: "sum1"/"sum2" go through the reflected addition with a number on the left)
        for kind in ("copy", "add", "sub", "mul", "sum1", "sum2") + (("radd",) if r in detached else ()):
            before = full_view(S)
            g_before = mutable_graph(m)
            try:
                with warnings.catch_warnings():
                    warnings.simplefilter("ignore")
                    other = m.reactions[0] if m.reactions[0] is not r else m.reactions[-1]
                    new = {"copy": lambda: r.copy(), "add": lambda: r + other, "sub": lambda: r - other,
                           "mul": lambda: r * 2, "radd": lambda: other + r, "sum1": lambda: sum([r]),
                           "sum2": lambda: sum([r, other])}[kind]()
            except Exception as exc:
                P.append((f"Reaction {kind} raised " + type(exc).__name__, repr(exc)))
                continue
            n += 1
            after = full_view(S)
            d = observe.diff(before[0], after[0])
            if d or before[1] != after[1]:
                P.append((f"Reaction {kind} changed its operands/model at " + observe.first_path(d), "\n".join(d)))
            if r in detached:
                kind = kind + " (reaction removed from the model)"
            if new.model is not None:
                P.append((f"result of Reaction {kind} belongs to a model", r.id))
            gn = mutable_graph(new)
            shared = sorted(g_before[i] for i in set(gn) & set(g_before))
            if shared:
                P.append((f"result of Reaction {kind} shares mutable objects with the model", ", ".join(shared)[:300]))
            # editing the result must not touch the model
            try:
                with warnings.catch_warnings():
                    warnings.simplefilter("ignore")
                    new.annotation["x"] = "y"
                    new.notes["x"] = "y"
                    new.bounds = (-1, 1)
                    for met in list(new.metabolites):
                        met.annotation["x"] = "y"
                        met.notes["x"] = "y"
                    new *= 3
            except Exception as exc:
                P.append((f"editing the result of Reaction {kind} raised " + type(exc).__name__, repr(exc)))
            after2 = full_view(S)
            d = observe.diff(before[0], after2[0])
            if d or before[1] != after2[1]:
                P.append((f"editing the result of Reaction {kind} changed the model at " + observe.first_path(d),
                          "\n".join(d)))
    for x in list(m.metabolites) + list(m.genes):
        what = type(x).__name__
        before = full_view(S)
        new = x.copy()
        n += 1
        new.annotation["x"] = "y"
        new.notes["x"] = "y"
        # ... and in place below the first level
        for holder in (new.annotation, new.notes):
            for v in list(holder.values()):
                if isinstance(v, list):
                    v.append("added to the copy")
                elif isinstance(v, dict):
                    v["added to the copy"] = 1
        new.name = "renamed copy"
        after = full_view(S)
        d = observe.diff(before[0], after[0])
        if d:
            P.append((f"editing {what}.copy() changed the model at " + observe.first_path(d), "\n".join(d)))
    return P, n


def run_task(payload):
    interface = payload["interface"]
    violations = []
    stats = {"cases": 0, "steps_executed": 0, "object_copies": 0}
    for item in payload["cases"]:
        if item[0] == "objcopy":
            prefix = _t(item[1])
            P, n = object_copy_problems(interface, prefix)
            stats["object_copies"] += n
            for p in P:
                violations.append(({"mech": "object", "prefix": "; ".join(o[0] for o in prefix), "steps": "",
                                    "problem": p[0]},
                                   {"interface": interface, "objcopy": True, "prefix": _l(prefix)}, p[0] + "\n" + p[1]))
            continue
        prefix, mech, steps = _t(item[0]), item[1], _t(item[2])
        problems, executed = run_case(interface, prefix, mech, steps)
        stats["cases"] += 1
        stats["steps_executed"] += executed
        if problems:
            p2, s2, pr2 = minimise(interface, prefix, mech, steps, problems)
            for pr in (pr2 if not s2 else pr2[:1]):
                violations.append((sig_of(p2, mech, s2, [pr]),
                                   {"interface": interface, "prefix": _l(p2), "mech": mech, "steps": _l(s2)},
                                   "prefix=%s mech=%s steps=%s\n%s\n%s" % (p2, mech, s2, pr[0], pr[1])))
    return {"violations": violations, "stats": stats}


def replay(case):
    if case.get("objcopy"):
        P, n = object_copy_problems(case["interface"], _t(case["prefix"]))
        prefix = _t(case["prefix"])
        return [{"sig": {"mech": "object", "prefix": "; ".join(o[0] for o in prefix), "steps": "", "problem": p[0]},
                 "detail": p[1]} for p in P]
    prefix, mech, steps = _t(case["prefix"]), case["mech"], _t(case["steps"])
    problems, _ = run_case(case["interface"], prefix, mech, steps)
    if not problems:
        return []
    return [{"sig": sig_of(prefix, mech, steps, [p]), "detail": p[0] + "\n" + p[1]}
            for p in (problems if not steps else problems[:1])]


def enumerate_cases(tier):
    base = [o for o in bench.alphabet(tier) if o[0] not in ("h_copy", "h_deepcopy", "h_pickle", "h_json", "h_sbml", "exit_exc")]
    ops = base + EXTRA_OPS + FOREIGN_OPS
    for prefix in PREFIXES:
        yield ("objcopy", prefix)
        for mech in MECHS:
            yield (prefix, mech, ())
            for op in ops:
                for side in "oc":
                    yield (prefix, mech, ((side, op),))
    # depth 2: second-order effects (first edit creates shared state, second exposes it)
    small = EXTRA_OPS + [o for o in base if o[0] in ("add_mets", "rule", "remove_rxns", "add_rxns", "imul",
                                                   "gene_ko", "objective", "optimize", "add_cons_vars",
                                                   "remove_cons_vars", "solver", "exit", "set_id", "merge")]
    pre2 = [(), (("enter",), ("lb", "r1", 2))] if tier == "quick" else PREFIXES
    second = small if tier != "quick" else small[::2]
    # an object of the other model whose id the acting model does not (or no longer) have
    structural = [o for o in base if o[0] in ("add_model_mets", "remove_mets", "remove_rxns", "add_rxns", "set_id")]
    for mech in MECHS:
        for a in structural:
            for b in FOREIGN_OPS:
                for sides in (("o", "c"), ("c", "o"), ("c", "c"), ("o", "o")):
                    yield ((), mech, ((sides[0], a), (sides[1], b)))
    for prefix in pre2:
        for mech in MECHS:
            for a in small:
                for b in second:
                    for sides in (("o", "c"), ("c", "o"), ("c", "c")):
                        yield (prefix, mech, ((sides[0], a), (sides[1], b)))


def explore(ctx):
    cases = list(enumerate_cases(ctx.tier))
    off = ctx.seed % max(1, len(cases))
    cases = cases[off:] + cases[:off]
    stats = {}
    chunk = 30
    for interface in (("glpk", "glpk_exact") if ctx.thorough else ("glpk",)):
        payloads = [{"interface": interface, "cases": cases[i:i + chunk]} for i in range(0, len(cases), chunk)]
        with ctx.pool(timeout=1200) as pool:
            for i, status, res in pool.imap(payloads):
                r = ctx.collect(status, res)
                if r is None:
                    if status in ("abort", "timeout"):
                        ctx.violation({"mech": "", "prefix": "", "steps": "", "problem": "worker " + status},
                                      {"interface": interface, "chunk": _l(payloads[i]["cases"][:3])}, status)
                    continue
                for k, v in r["stats"].items():
                    stats[k] = stats.get(k, 0) + v
    n = stats.get("cases", 0)
    ctx.cov.update({
        "states": n + stats.get("steps_executed", 0), "transitions": stats.get("steps_executed", 0) + n,
        "traces_validated_against_impl": n, "evaluations": n + stats.get("object_copies", 0),
        "distinct_nontrivial": len({str(c) for c in cases if c[0] != "objcopy" and c[2]}),
        "rule": "pairs (original, copy) for every prefix in PREFIXES (incl. a context left open at copy time) x "
                "{Model.copy, copy.deepcopy, pickle} x every one-step and (reduced alphabet) two-step edit sequence "
                "applied to either side; plus Reaction.copy/+/-/* and Metabolite.copy on every element; non-trivial "
                "= at least one edit step",
        "exhaustive": True, "cases_enumerated": len(cases), "object_copies_checked": stats.get("object_copies", 0),
        "steps_executed": stats.get("steps_executed", 0),
    })
    for c in cases[:3]:
        ctx.sample(_l(c))
    ctx.assumptions += ["bench-sized model", "aliasing check walks __dict__/list/dict/set/tuple, not solver internals "
                        "(solver objects are compared by identity and by raw LP content)"]
