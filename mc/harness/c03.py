"""C03 - leaving a `with model:` block restores the model completely.

Exhaustive enumeration of block shapes (placements of enter/exit, nesting) x operation
sequences from the reversible alphabet, each run on fresh real objects; snapshot at every
__enter__ compared with the snapshot after the matching __exit__.
"""
import itertools
import warnings

from .. import bench, observe
from ..benchsearch import _l, _t, normalise

PROPERTY = "C03"
LEVEL = "model_checking"

E, X, XE = ("enter",), ("exit",), ("exit_exc",)

PREFIXES = [(), (("add_rxns", ("r3",)),), (("remove_rxns", (("obj", "r1"),), False),),
            (("rule", "r1", "g1 or g3"),), (("imul", "r1", -1),), (("gene_ko", "g1"),),
            (("objective", ("id", "r1")),), (("h_copy",),), (("solver", "glpk_exact"),),
            (("h_pickle",),), (("remove_groups", ("G1",)),)]


def shapes(tier):
    """Block shapes as tuples over {'E','X','o'}; number of 'o' = operations inside."""
    one = ["EoX", "EEoXX"]
    two = ["EooX", "EoEoXX", "EEooXX", "EEoXoX"]
    three = ["EoooX", "EEoooXX", "EoEooXX", "EooEoXX", "EEoXooX", "EoEoXoX", "EEEoXXX", "EEEooXXX"]
    if tier == "quick":
        return one, two, []
    return one + ["EEEoXXX"], two + ["EEEooXXX"], three[:6]


def snapshot(S):
    view = observe.unordered(observe.python_view(S.model))
    raw = observe.raw_lp(S.model)
    return {"view": view, "lp": observe.lp_canonical(raw, ordered=False), "raw": raw,
            "user": (sorted(S.user_cols), sorted(S.user_rows)),
            "xref": set(observe.xref_problems(S.model)),
            "lpp": set(observe.lp_problems(S.model, S.user_cols, S.user_rows, raw=raw))}


def lp_diff(a, b):
    """First differences between two raw LPs keyed by name."""
    da = {"cols": {k: v for k, v in a["cols"].items()}, "rows": {k: v for k, v in a["rows"].items()},
          "direction": a["direction"], "offset": a["offset"]}
    db = {"cols": {k: v for k, v in b["cols"].items()}, "rows": {k: v for k, v in b["rows"].items()},
          "direction": b["direction"], "offset": b["offset"]}
    return observe.diff(da, db)


def run_block(interface, prefix, block):
    """Execute prefix + block. Returns list of problems [(kind, detail)] (empty = restored)."""
    S = bench.Session(interface)
    bench.run_history(S, prefix)
    snaps = []
    problems = []
    executed = 0
    for op in block:
        if op == E:
            snaps.append(snapshot(S))
        try:
            with warnings.catch_warnings():
                warnings.simplefilter("ignore")
                bench.apply_op(S, op)
            if op not in (E, X, XE):
                executed += 1
        except bench.Disabled:
            if op in (E, X, XE):
                return None
            continue
        except Exception as exc:
            if op in (X, XE):
                problems.append(("exit raised " + type(exc).__name__, repr(exc)))
                # the context was popped; compare anyway
            elif op == E:
                return None
            else:
                executed += 1
        if op in (X, XE):
            before = snaps.pop()
            try:
                after = snapshot(S)
            except Exception as exc:
                problems.append(("state unobservable after exit: " + type(exc).__name__, repr(exc)))
                break
            d = observe.diff(before["view"], after["view"])
            if d:
                problems.append(("content differs at " + observe.first_path(d), "\n".join(d)))
            if before["lp"] != after["lp"]:
                ld = lp_diff(before["raw"], after["raw"])
                if ld:
                    fp = observe.first_path(ld)
                    parts = fp.split("/")
                    if len(parts) > 2 and parts[1] == "rows":
                        parts[2] = ("METROW" if parts[2] in before["view"]["metabolites"] else
                                    "USERROW" if parts[2] in ("uc", "uv2_c") else parts[2])
                    fp = "/".join(parts)
                    problems.append(("solver problem differs at " + normalise(fp), "\n".join(ld)))
            xr = [p for p in observe.xref_problems(S.model) if p not in before["xref"]]
            if xr:
                problems.append(("cross-references after exit: " + normalise(xr[0]), "\n".join(xr[:5])))
            lp = [p for p in observe.lp_problems(S.model, S.user_cols, S.user_rows, raw=after["raw"])
                  if p not in before["lpp"]]
            if lp and not before["lpp"] and not (before["lp"] != after["lp"]):
                problems.append(("solver problem inconsistent after exit: " + normalise(lp[0]), "\n".join(lp[:5])))
            if problems:
                break
    if executed == 0:
        return None
    return problems


def block_from(shape, ops, exc_exit):
    it = iter(ops)
    out = []
    depth = 0
    for ch in shape:
        if ch == "E":
            out.append(E)
            depth += 1
        elif ch == "X":
            depth -= 1
            out.append(XE if (exc_exit and depth == 0) else X)
        else:
            out.append(next(it))
    return tuple(out)


def minimise(interface, prefix, block, problems):
    """Delta-debug: drop operations (keeping enter/exit structure) while the same first problem
    kind persists, so that the signature names only the operations that matter."""
    kind = problems[0][0]
    changed = True
    while changed:
        changed = False
        for i, op in enumerate(block):
            if op in (E, X, XE):
                continue
            cand = block[:i] + block[i + 1:]
            p = run_block(interface, prefix, cand)
            if p and p[0][0] == kind:
                block, problems, changed = cand, p, True
                break
    # drop the prefix if it does not matter
    if prefix:
        p = run_block(interface, (), block)
        if p and p[0][0] == kind:
            prefix, problems = (), p
    # drop empty enter/exit pairs
    changed = True
    while changed:
        changed = False
        for i in range(len(block) - 1):
            if block[i] == E and block[i + 1] in (X, XE) and len(block) > 2:
                cand = block[:i] + block[i + 2:]
                p = run_block(interface, prefix, cand)
                if p and p[0][0] == kind:
                    block, problems, changed = cand, p, True
                    break
    # drop redundant nesting
    while True:
        s = "".join("E" if o == E else "X" if o in (X, XE) else "o" for o in block)
        if s.startswith("EE") and s.endswith("XX"):
            cand = block[1:-1]
            p = run_block(interface, prefix, cand)
            if p and p[0][0] == kind:
                block, problems = cand, p
                continue
        break
    return prefix, block, problems


def sig_of(prefix, block, problems, interface="glpk"):
    from ..benchsearch import variant

    s = "".join("E" if o == E else "X" if o in (X, XE) else "o" for o in block)
    inner = [o for o in block if o not in (E, X, XE)]
    return {"shape": s, "ops": "; ".join("%s[%s]" % (o[0], variant(o)) if o[0] != "helper" else "helper[%s]" % o[1]
                                         for o in inner),
            "prefix": "; ".join(o[0] for o in prefix), "problem": problems[0][0],
            **({"interface": interface} if interface != "glpk" else {})}


def run_task(payload):
    interface = payload["interface"]
    violations = []
    stats = {"blocks": 0, "skipped": 0, "with_failing_op": 0}
    for prefix, block in payload["blocks"]:
        prefix, block = _t(prefix), _t(block)
        problems = run_block(interface, prefix, block)
        if problems is None:
            stats["skipped"] += 1
            continue
        stats["blocks"] += 1
        if problems:
            p2, b2, pr2 = minimise(interface, prefix, block, problems)
            case = {"interface": interface, "prefix": _l(p2), "block": _l(b2)}
            violations.append((sig_of(p2, b2, pr2, interface), case,
                               "prefix=%s\nblock=%s\n%s\n%s" % (p2, b2, pr2[0][0], pr2[0][1])))
    return {"violations": violations, "stats": stats}


def replay(case):
    problems = run_block(case["interface"], _t(case["prefix"]), _t(case["block"]))
    if not problems:
        return []
    prefix, block = _t(case["prefix"]), _t(case["block"])
    return [{"sig": sig_of(prefix, block, [p], case["interface"]), "detail": p[0] + "\n" + p[1]} for p in problems[:1]]


def enumerate_blocks(tier):
    R = bench.reversible_alphabet(tier)
    one, two, three = shapes(tier)
    n = 0
    for shape in one:
        for prefix in PREFIXES:
            for o in R:
                for exc in (False, True):
                    yield prefix, block_from(shape, (o,), exc)
    for shape in two:
        for k, (a, b) in enumerate(itertools.product(R, repeat=2)):
            yield (), block_from(shape, (a, b), k % 2 == 1)
    else:
        # quick: every triple of bound edits (one attribute changed repeatedly inside one block)
        bops = [o for o in R if o[0] in ("lb", "ub", "bounds", "knock_out")]
        for k, ops3 in enumerate(itertools.product(bops, repeat=3)):
            yield (), block_from("EoooX", ops3, k % 2 == 1)
    if three:
        # deviation-bounded third operation: all triples where at least one op is a bounds edit
        simple = [o for o in R if o[0] in ("lb", "ub", "bounds", "knock_out")][:6]
        for shape in three:
            for k, (a, b) in enumerate(itertools.product(R, repeat=2)):
                for c in simple:
                    for pos in range(3):
                        ops = [a, b]
                        ops.insert(pos, c)
                        yield (), block_from(shape, tuple(ops), k % 2 == 1)


def explore(ctx):
    blocks = list(enumerate_blocks(ctx.tier))
    off = ctx.seed % max(1, len(blocks))
    blocks = blocks[off:] + blocks[:off]
    stats = {}
    chunk = 40
    total = 0
    for interface in (("glpk", "glpk_exact") if ctx.thorough else ("glpk",)):
        payloads = [{"interface": interface, "blocks": blocks[i:i + chunk]} for i in range(0, len(blocks), chunk)]
        with ctx.pool(timeout=1200) as pool:
            for i, status, res in pool.imap(payloads):
                r = ctx.collect(status, res)
                if r is None:
                    if status in ("abort", "timeout"):
                        for b in payloads[i]["blocks"]:
                            (st1, res1), = pool.map([{"interface": interface, "blocks": [b]}])
                            r1 = ctx.collect(st1, res1)
                            if r1 is None and st1 in ("abort", "timeout"):
                                ctx.violation({"shape": "", "ops": "", "prefix": "", "problem": "worker " + st1},
                                              {"interface": interface, "prefix": _l(b[0]), "block": _l(b[1])},
                                              "worker %s on block %s" % (st1, b))
                            elif r1:
                                for k, v in r1["stats"].items():
                                    stats[k] = stats.get(k, 0) + v
                    continue
                for k, v in r["stats"].items():
                    stats[k] = stats.get(k, 0) + v
    R = bench.reversible_alphabet(ctx.tier)
    ctx.cov.update({
        "states": stats.get("blocks", 0) * 2, "transitions": stats.get("blocks", 0),
        "traces_validated_against_impl": stats.get("blocks", 0),
        "evaluations": stats.get("blocks", 0),
        "distinct_nontrivial": len({(str(p), str(b)) for p, b in blocks}),
        "rule": "every block shape in %s x every sequence over the reversible alphabet (%d operations incl. failing "
                "variants and analysis helpers), normal and exceptional exit, %d prefixes for one-operation blocks; "
                "each block executed on fresh real objects; snapshot (unordered Python view + raw GLPK problem by "
                "name) at each __enter__ compared after the matching __exit__; non-trivial = at least one "
                "operation was enabled and executed inside the block" % (shapes(ctx.tier), len(R), len(PREFIXES)),
        "exhaustive": True, "blocks_enumerated": len(blocks), "blocks_skipped_disabled": stats.get("skipped", 0),
        "alphabet_size": len(R), "shapes": shapes(ctx.tier),
    })
    for b in blocks[:3]:
        ctx.sample({"prefix": _l(b[0]), "block": _l(b[1])})
    ctx.assumptions += ["bench-sized model; glpk (thorough: and glpk_exact)",
                        "list orders and LP row/column order are not compared (as the property states)"]
