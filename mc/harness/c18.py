"""C18 - medium get/set are inverse; a minimal medium is sufficient and minimal.

Part A (closure): all reachable bound states of a 3-exchange bench under every medium
assignment, compared with reference medium semantics.
Part B (family): minimal_medium on family members with >= 2 exchanges (both spellings) x
min_objective_value x exports x open_exchanges x minimize_components vs exact LP / exhaustive
subset enumeration."""
import itertools
import warnings
from fractions import Fraction as F

from .. import exactlp, families, oracles
from ..exactlp import OPT, fr, solve
from .c04 import _j, _u

PROPERTY = "C18"
LEVEL = "model_checking"
TOL = 1e-6

# ---------------------------------------------------------------------------------------
# Part A: medium closure

EXCH = [("EX_A", "A_e", "export"), ("IM_B", "B_e", "import"), ("EX_C", "C_e", "export")]
VALUES = [0, 3, 20]


def build_medium_bench(state):
    """state: ((imp, exp) per exchange) with imp/exp = bounds in import/export direction (imp may be negative =
    forced export)."""
    from cobra import Metabolite, Model, Reaction

    m = Model("medium_bench")
    mets = {k: Metabolite(k, compartment="e") for _, k, _ in EXCH}
    x = Metabolite("X_c", compartment="c")
    rs = []
    for (rid, mid, written), (imp, exp) in zip(EXCH, state):
        r = Reaction(rid)
        if written == "export":
            r.add_metabolites({mets[mid]: -1})
            r.bounds = (-imp, exp)
        else:
            r.add_metabolites({mets[mid]: 1})
            r.bounds = (-exp, imp)
        rs.append(r)
    for k, (_, mid, _) in enumerate(EXCH):
        t = Reaction("T%d" % k, lower_bound=-10, upper_bound=10)
        t.add_metabolites({mets[mid]: -1, x: 1})
        rs.append(t)
    dm = Reaction("DM_X_c", lower_bound=0, upper_bound=7)
    dm.add_metabolites({x: -1})
    sk = Reaction("SK_X_c", lower_bound=-4, upper_bound=6)
    sk.add_metabolites({x: -1})
    m.add_reactions(rs + [dm, sk])
    return m


def read_state(m):
    st = []
    for rid, mid, written in EXCH:
        r = m.reactions.get_by_id(rid)
        st.append((-r.lower_bound, r.upper_bound) if written == "export" else (r.upper_bound, -r.lower_bound))
    return tuple((_n(a), _n(b)) for a, b in st)


def _n(x):
    return int(x) if float(x) == int(x) else float(x)


def ref_medium(state):
    return {rid: imp for (rid, _, _), (imp, exp) in zip(EXCH, state) if imp > 0}


def ref_assign(state, d):
    out = []
    for (rid, _, _), (imp, exp) in zip(EXCH, state):
        if rid in d:
            out.append((d[rid], exp))
        else:
            out.append((min(imp, 0), exp))
    return tuple(out)


def medium_ops():
    ops = []
    for vals in itertools.product([None] + VALUES, repeat=len(EXCH)):
        ops.append(tuple((EXCH[i][0], v) for i, v in enumerate(vals) if v is not None))
    return ops


def others_view(m):
    return {r.id: (r.lower_bound, r.upper_bound) for r in m.reactions if r.id not in [e[0] for e in EXCH]}


def medium_transition(state, op, in_context, origin=None):
    viol = []
    m = build_medium_bench(state)
    case = {"part": "medium", "state": [list(s) for s in state], "op": [list(o) for o in op], "context": in_context}
    if origin:
        # the same model reached by another public route (mc/origins.py)
        from .. import origins

        case["origin"] = origin
        try:
            m = origins.derive(m, origin)
        except origins.OriginUnavailable:
            return None, []

    def bad(check, detail):
        sg = {"part": "medium", "check": check, "context": in_context}
        if origin:
            sg["origin"] = origin
        viol.append((sg, case, f"{detail}\nstate {state} op {op}"))

    before_others = others_view(m)
    got_med = m.medium
    if {k: _n(v) for k, v in got_med.items()} != ref_medium(state):
        bad("model.medium differs from the positive import bounds", f"{got_med} vs {ref_medium(state)}")
    d = dict(op)
    want = ref_assign(state, d)
    try:
        if in_context:
            with m:
                m.medium = d
                inner = read_state(m)
            after_exit = read_state(m)
            if after_exit != state:
                bad("medium assignment not undone on context exit", f"{after_exit} vs {state}")
            post = inner
        else:
            m.medium = d
            post = read_state(m)
    except Exception as exc:
        bad("medium assignment raised", repr(exc))
        return None, viol
    if post != want:
        for (rid, _, _), g, w, s in zip(EXCH, post, want, state):
            if g[1] != w[1]:
                bad("export bound changed", f"{rid}: {g} vs expected {w}")
            elif g[0] != w[0]:
                bad("import bound of a %s exchange wrong" % ("listed" if rid in d else "unlisted"),
                    f"{rid}: {g} vs expected {w}")
    if not in_context:
        if others_view(m) != before_others:
            bad("non-exchange reaction changed", str(others_view(m)))
        med2 = m.medium
        if {k: _n(v) for k, v in med2.items()} != ref_medium(post):
            bad("medium read back differs from the entries with positive import", f"{med2} vs {ref_medium(post)}")
        try:
            m.medium = m.medium
            if read_state(m) != post and all(i >= 0 for i, _ in post):
                bad("model.medium = model.medium is not the identity", f"{read_state(m)} vs {post}")
        except Exception as exc:
            bad("model.medium = model.medium raised", repr(exc))
    return (want if not viol else None), viol


# ---------------------------------------------------------------------------------------
# Part B: minimal_medium

MENU_B = [(-10, 10), (0, 10), (-10, 0), (-3, 10)]


def import_flux_expr(st, flipped):
    """sign s such that import flux = s * v for a boundary reaction (consumption written: import = -v)."""
    return 1 if flipped else -1


def check_minimal_medium(net, bounds, flip, stats, rich=False, origin=None):
    out = _check_minimal_medium(net, bounds, flip, stats, rich, origin)
    if origin:
        for sg, cs, _ in out:
            sg["origin"] = origin
            cs["origin"] = origin
    return out


def _check_minimal_medium(net, bounds, flip, stats, rich=False, origin=None):
    from cobra.medium import minimal_medium

    mets, rxns = families.as_data(net, bounds, nm=len(net[0]))
    ids = [r[0] for r in rxns]
    bnd = [r[0] for r in rxns if len(r[1]) == 1]
    comp = {m: ("e" if any(len(r[1]) == 1 and m in r[1] for r in rxns) else "c") for m in mets}
    out = []
    objs = [r[0] for r in rxns if len(r[1]) > 1][:2] + bnd[:1]
    for oid in objs:
        fba = exactlp.FBA(mets, rxns, {oid: 1}, "max")
        st, z, _ = fba.optimum()
        if st != OPT:
            continue
        model = families.build_model(mets, rxns, compartments=comp, flip=flip)
        sgn_obj = -1 if oid in flip else 1
        model.objective = {model.reactions.get_by_id(oid): sgn_obj}
        if origin:
            # the same model reached by another public route (mc/origins.py)
            from .. import origins

            try:
                model = origins.derive(model, origin)
            except origins.OriginUnavailable:
                stats["origin_unavailable"] = stats.get("origin_unavailable", 0) + 1
                continue
        targets = []
        if z > 0:
            targets += [("half", z / 2), ("optimum", z)]
        targets.append(("unachievable", z + 1))
        # optimum reachable only with opened exchanges (needs imports beyond the current exchange bounds)
        ropen = [(rid, stc, (-1000 if len(stc) == 1 else lb), (1000 if len(stc) == 1 else ub)) for rid, stc, lb, ub in rxns]
        sto, zo, _ = exactlp.FBA(mets, ropen, {oid: 1}, "max").optimum()
        if sto == OPT and zo > z and zo > 0:
            targets.append(("open_optimum", zo))
        for (tname, target), exports, oe, mc in itertools.product(
                targets, (False, True), (False, True, 50), (False, True, 3)):
            if not rich and sum([exports, oe is not False, mc is not False]) > 1 and not (
                    exports is False and oe is True and mc is True):
                continue
            if tname == "open_optimum" and oe is False:
                continue
            case = {"part": "minimal_medium", "net": [list(c) for c in net], "bounds": [[_j(a), _j(b)] for a, b in bounds],
                    "flip": sorted(flip), "objective": oid, "target": tname, "exports": exports, "open_exchanges": oe,
                    "minimize_components": mc}
            stats["evaluations"] = stats.get("evaluations", 0) + 1

            def bad(check, detail):
                out.append(({"part": "minimal_medium", "check": check, "target": tname, "exports": exports,
                             "open": oe is not False, "components": mc is not False}, case,
                            f"{detail}\nmodel {rxns} flip {sorted(flip)}\ncase {case}"))

            # exact problem
            ob = 1000 if oe is True else oe
            r2 = [(rid, stc, (-ob if oe and len(stc) == 1 else lb), (ob if oe and len(stc) == 1 else ub))
                  for rid, stc, lb, ub in rxns]
            f2 = exactlp.FBA(mets, r2, {oid: 1}, "max")
            lp = f2.lp()
            lp.row(f2.cvec(), fr(float(target)), None)
            feasible, _ = exactlp.feasible(lp)
            try:
                with warnings.catch_warnings():
                    warnings.simplefilter("ignore")
                    med = minimal_medium(model, float(target), exports=exports, minimize_components=mc,
                                         open_exchanges=oe)
            except Exception as exc:
                bad("raised", repr(exc))
                continue
            if not feasible:
                if med is not None:
                    bad("returned a medium although no medium suffices", str(med))
                continue
            if med is None:
                bad("returned None although a medium suffices", "")
                continue
            stats["nontrivial"] = stats.get("nontrivial", 0) + 1
            cols = [med] if not hasattr(med, "columns") else [med[cname] for cname in med.columns]
            # import flux of boundary j is -v_j (consumption orientation in the data)
            tvars = {}
            lpt = lp.copy()
            for rid in bnd:
                j = f2.idx[rid]
                t = lpt.var(0, None)
                lpt.row({j: -1, t: -1}, None, 0)  # -v - t <= 0  -> t >= import
                tvars[rid] = t
            stT, Tmin, _ = solve(lpt, {t: 1 for t in tvars.values()}, "min")

            def min_components():
                for k in range(len(bnd) + 1):
                    for sub in itertools.combinations(bnd, k):
                        l2 = lp.copy()
                        for rid in bnd:
                            if rid not in sub:
                                j = f2.idx[rid]
                                l2.lb[j] = F(0) if l2.lb[j] is None or l2.lb[j] < 0 else l2.lb[j]
                        okk, _ = exactlp.feasible(l2)
                        if okk:
                            return k
                return None

            kmin = min_components() if mc is not False else None
            seen_cols = set()
            for col in cols:
                imports = {rid: float(v) for rid, v in col.items() if v > 0}
                if any(rid not in bnd for rid in col.index):
                    bad("medium lists a non-exchange reaction", str(col))
                # sufficiency: imports as returned, all other imports closed
                l3 = f2.lp()
                for rid in bnd:
                    j = f2.idx[rid]
                    cap = fr(imports.get(rid, 0.0) * (1 + 1e-6) + 1e-7)
                    if l3.lb[j] is None or -cap > l3.lb[j]:
                        l3.lb[j] = -cap
                st3, z3, _ = solve(l3, f2.cvec(), "max")
                if st3 != OPT or float(z3) < float(target) - TOL * max(1, abs(float(target))):
                    bad("returned medium is not sufficient", f"medium {imports}: reachable {z3 if st3 == OPT else st3} < {target}")
                if mc is False:
                    tot = sum(imports.values())
                    if abs(tot - float(Tmin)) > TOL * max(1, float(Tmin)):
                        bad("total import flux is not minimal", f"{tot} vs {Tmin}; medium {imports}")
                else:
                    if len(imports) != kmin:
                        bad("number of components is not minimal", f"{len(imports)} vs {kmin}; medium {imports}")
                if not exports and any(v < 0 for v in col.values):
                    bad("export fluxes returned although exports=False", str(col))
    return out


def run_task(payload):
    if payload["kind"] == "expand":
        succ_all, violations = [], []
        stats = {"medium_transitions": 0}
        for hist in payload["histories"]:
            state = hist[-1] if hist else payload["root"]
            state = tuple(tuple(s) for s in state)
            succ = []
            for k, op in enumerate(medium_ops()):
                nxt, viol = medium_transition(state, op, in_context=(k % 5 == 4))
                stats["medium_transitions"] += 1
                violations.extend(viol)
                succ.append((nxt, nxt, nxt is not None))
            succ_all.append(succ)
        return {"succ": succ_all, "violations": violations[:300], "stats": stats}
    if payload["kind"] == "medium_origins":
        from .. import origins

        stats, violations = {"medium_transitions_from_origins": 0}, []
        state = tuple(tuple(x) for x in payload["state"])
        for op in medium_ops()[payload["offset"]::7]:
            for origin in origins.ORIGINS:
                if origin == "in_context":
                    continue   # (the transition opens and leaves contexts of its own)
                _, viol = medium_transition(state, op, False, origin)
                stats["medium_transitions_from_origins"] += 1
                violations.extend(viol)
        return {"violations": violations[:100], "stats": stats}
    P = payload["params"]
    stats, violations = {}, []
    if payload["kind"] == "mm_shapes":
        for net in payload["nets"]:
            net = tuple(tuple(c) for c in net)
            ids = families.rxn_ids(net)
            bnd = [i for i, c in zip(ids, net) if families.is_boundary(c)]
            for bounds in (tuple(families.default_bounds(c) for c in net),
                           tuple((-4, 10) if families.is_boundary(c) else (0, 10) for c in net)):
                for flip in ((), (bnd[-1],)):
                    stats["models"] = stats.get("models", 0) + 1
                    violations.extend(check_minimal_medium(net, bounds, set(flip), stats, True))
        return {"violations": violations[:300], "stats": stats}
    for net in payload["nets"]:
        net = tuple(tuple(c) for c in net)
        ids = families.rxn_ids(net)
        bnd = [i for i, c in zip(ids, net) if families.is_boundary(c)]
        small = tuple((-2, 2) if families.is_boundary(c) else (0, 10) for c in net)
        if payload.get("origins"):
            from .. import origins

            for bounds in (tuple(families.default_bounds(c) for c in net), small):
                for origin in origins.ORIGINS:
                    stats["models_from_origins"] = stats.get("models_from_origins", 0) + 1
                    violations.extend(check_minimal_medium(net, bounds, set(bnd[:1]), stats, False, origin))
            continue
        for bounds in list(families.bound_assignments(net, P["d"], P["menu"])) + [small]:
            for flip in ([()] + [(b,) for b in bnd] + ([tuple(bnd)] if len(bnd) > 1 else [])):
                stats["models"] = stats.get("models", 0) + 1
                violations.extend(check_minimal_medium(net, bounds, set(flip), stats, payload.get("rich", False)))
    return {"violations": violations[:300], "stats": stats}


def replay(case):
    import json

    if case.get("part") == "medium":
        _, viol = medium_transition(tuple(tuple(s) for s in case["state"]), tuple(tuple(o) for o in case["op"]),
                                    case["context"], case.get("origin"))
        return [{"sig": s, "detail": d} for s, c, d in viol]
    net = tuple(tuple(c) for c in case["net"])
    bounds = tuple((_u(a), _u(b)) for a, b in case["bounds"])
    out = check_minimal_medium(net, bounds, set(case["flip"]), {}, rich=True, origin=case.get("origin"))
    return [{"sig": s, "detail": d} for s, c, d in out if json.loads(json.dumps(c)) == case]


def explore(ctx):
    from ..explore import bfs

    n_self = exactlp.selftest(limit=3000)
    # Part A: closure from several initial states (all reachable states are merged)
    inits = []
    base = ((10, 10), (10, 10), (10, 10))
    inits.append(base)
    for i in range(3):
        for alt in ((0, 10), (10, 0), (0, 0), (-2, 10)):
            s = list(base)
            s[i] = alt
            inits.append(tuple(s))
    with ctx.pool(timeout=1200) as pool:
        res = bfs(ctx, pool, [((s,), s) for s in inits], max_depth=None, extra={}, batch=2, progress=False)
    # Part B
    P = dict(nm=3, nr=4 if ctx.thorough else 3, K=(-1, 0, 1), d=1, menu=MENU_B)
    nets = [n for n in families.networks(P["nm"], P["nr"], P["K"])
            if sum(1 for c in n if families.is_boundary(c)) >= 2 and any(not families.is_boundary(c) for c in n)]
    off = ctx.seed % len(nets)
    nets = nets[off:] + nets[:off]
    payloads = [{"kind": "mm", "params": P, "nets": nets[i:i + 1], "rich": ctx.thorough} for i in range(len(nets))]
    # origins: three-reaction members (first exchange written backwards; default and small exchange bounds) reached by every
    # other public route (mc/origins.py)
    from .. import origins

    no = [n for n in nets if len(n) == 3]
    if ctx.tier == "quick":
        no = no[::2]
    payloads += [{"kind": "mm", "params": P, "nets": no[i:i + 1], "origins": True} for i in range(len(no))]
    # hand-made shapes over four metabolites: the product C comes from one substrate (A) or from two together (B and D) -
    # media of one and of two components exist side by side; second shape: two single substrates and one pair
    SHAPES = [((0, 0, -1, 0), (-1, 0, 0, 0), (0, -1, 0, 0), (0, 0, 0, -1), (-1, 0, 1, 0), (0, -1, 1, -1)),
              ((0, 0, -1, 0), (-1, 0, 0, 0), (0, -1, 0, 0), (0, 0, 0, -1), (-1, 0, 1, 0), (0, -1, 1, 0), (-1, 0, 1, -1))]
    payloads += [{"kind": "mm_shapes", "params": P, "nets": [sh]} for sh in SHAPES]
    # Part A from every origin: every initial state x every 7th assignment (the offset rotates with the state)
    payloads += [{"kind": "medium_origins", "state": [list(x) for x in st], "offset": k % 7} for k, st in enumerate(inits)]
    stats = {}
    with ctx.pool(timeout=3000) as pool:
        for i, status, r0 in pool.imap(payloads):
            r = ctx.collect(status, r0)
            if r is None:
                if status in ("abort", "timeout"):
                    ctx.violation({"part": "minimal_medium", "check": "worker " + status},
                                  {"nets": payloads[i]["nets"]}, status)
                continue
            for k, v in r["stats"].items():
                stats[k] = stats.get(k, 0) + v
    ctx.cov.update({
        "states": res["states"] + stats.get("models", 0),
        "transitions": res["transitions"] + stats.get("evaluations", 0),
        "traces_validated_against_impl": res["transitions"] + stats.get("evaluations", 0),
        "evaluations": res["transitions"] + stats.get("evaluations", 0),
        "distinct_nontrivial": res["states"] + stats.get("nontrivial", 0),
        "rule": "A: closure of bound states of a bench with exchanges written as export (A -->), import (--> B) and "
                "reversible (C <=>), a demand and a sink, under all 64 medium assignments over values {0,3,20} (every 5th "
                "inside a context); B: family members with >=2 boundary and >=1 internal reaction x flipped spellings x "
                "targets (half, optimum, unachievable) x exports x open_exchanges x minimize_components; non-trivial = a "
                "medium exists",
        "exhaustive": bool(res["closed"]), "medium_states": res["states"], "medium_transitions": res["transitions"],
        "medium_closed": bool(res["closed"]), "minimal_medium_models": stats.get("models", 0),
        "minimal_medium_calls": stats.get("evaluations", 0), "exactlp_selftest_lps": n_self,
        "medium_from_origins": "%d medium assignments on models reached by another route (every initial state x every 7th "
                               "assignment x every origin)" % stats.get("medium_transitions_from_origins", 0),
        "origins_pass": "%d three-reaction networks x 2 bound profiles x %d origins (%s): %d models; route itself failed for %d" % (
            len(no), len(origins.ORIGINS), ", ".join(origins.ORIGINS), stats.get("models_from_origins", 0),
            stats.get("origin_unavailable", 0)),
    })
    ctx.sample({"medium_state": [list(s) for s in inits[1]], "op": [["EX_A", 3]]})
    ctx.sample({"minimal_medium_net": [list(c) for c in nets[0]]})
    ctx.assumptions += ["forced import excluded (property undefined there)", "finite bounds for minimal_medium"]
