"""C07 - knocking out genes disables exactly the reactions whose rule becomes false.

Closure-mode search: for every and/or rule shape over g1..g3 (thorough: g4, 4 leaves) on r1
(r2 carries 'g2 or g3', r3 no rule), all reachable (knocked genes, knocked reactions) states
under Gene.knock_out, knock_out_model_genes (ids / objects / indices, every subset) and
Reaction.knock_out; plus context blocks around every pair of operations."""
import itertools
import warnings

from .. import observe, ref_gpr

PROPERTY = "C07"
LEVEL = "model_checking"

INIT_BOUNDS = {"r1": (-5, 10), "r2": (0, 7), "r3": (-3, 4)}
# bounds profiles (the property does not restrict the bounds a knocked-out reaction had) and the history by which
# the model reached its initial state (fresh, or via operations that rebuild the gene <-> reaction links)
PROFILES = {"A": dict(INIT_BOUNDS), "B": {"r1": (-10, -2), "r2": (2, 7), "r3": (3, 3)}}
ORIGINS = ("fresh", "restored", "readded", "copy", "pickle", "edited", "renamed", "rxn_copied")


def variants(tier):
    if tier == "quick":
        return [("A", "fresh"), ("A", "restored"), ("B", "fresh"), ("B", "copy"), ("A", "edited"), ("A", "renamed"),
                ("B", "rxn_copied")]
    return [(p, o) for p in PROFILES for o in ORIGINS]


def trees(n, genes):
    """All and/or trees with exactly n leaves over genes (children of a node may repeat genes)."""
    if n == 1:
        for g in genes:
            yield g
        return
    for k in range(2, n + 1):
        for parts in _compositions(n, k):
            for op in ("and", "or"):
                for kids in itertools.product(*[list(trees(p, genes)) for p in parts]):
                    yield (op,) + kids


def _compositions(n, k):
    if k == 1:
        yield (n,)
        return
    for first in range(1, n - k + 2):
        for rest in _compositions(n - first, k - 1):
            yield (first,) + rest


def rule_family(tier):
    genes = ["g1", "g2", "g3"] if tier == "quick" else ["g1", "g2", "g3", "g4"]
    maxn = 3 if tier == "quick" else 4
    out = []
    for n in range(1, maxn + 1):
        for t in trees(n, genes):
            if tier != "quick" and n == 4 and len(ref_gpr.genes(t)) < 4:
                continue  # thorough 4-leaf trees: keep those using 4 distinct genes
            out.append(t)
    return out


def _prime(m):
    """Use every rule once (knock every gene out inside a rolled-back context, read reaction.functional) so that
    anything the library derives from a rule on first use exists before the rule is edited in place."""
    for g in list(m.genes):
        with m:
            g.knock_out()
            [r.functional for r in m.reactions]
    [r.functional for r in m.reactions]


def build(tree, origin="fresh"):
    if origin == "edited":
        # r1 starts as '(<rule>) or gX' (r2 as 'g2 or g3 or gX'), every rule is used once, then gX is removed from the
        # model: remove_genes rewrites the rules in place and the model must behave like a fresh one
        from cobra.manipulation import remove_genes

        m = _build(tree, r1_rule="(%s) or gX" % ref_gpr.render(tree), r2_rule="g2 or g3 or gX")
        _prime(m)
        remove_genes(m, ["gX"], remove_reactions=False)
        return m
    if origin == "renamed":
        # the same model spelled with other gene ids, used once, then renamed to g1..gN in one call
        from cobra.manipulation.modify import rename_genes

        names = sorted(ref_gpr.genes(tree) | {"g2", "g3"})
        alias = {g: "h" + g[1:] + "x" for g in names}
        text = ref_gpr.render(tree)
        import re

        m = _build(tree, r1_rule=re.sub(r"\bg(\d)\b", r"h\1x", text), r2_rule="h2x or h3x")
        _prime(m)
        rename_genes(m, {v: k for k, v in alias.items()})
        return m
    m = _build(tree)
    if origin == "rxn_copied":
        # reactions of the model were copied / combined before (Reaction.copy, +, *): pure observers of the model
        for r in list(m.reactions):
            r.copy()
        m.reactions.r1 + m.reactions.r2
        m.reactions.r3 * 2
    if origin == "restored":
        # every reaction removed inside a context that is rolled back
        with m:
            m.remove_reactions(list(m.reactions))
        assert len(m.reactions) == 3
    elif origin == "readded":
        rs = list(m.reactions)
        m.remove_reactions(rs)
        m.add_reactions(rs)
    elif origin == "copy":
        m = m.copy()
    elif origin == "pickle":
        import pickle

        m = pickle.loads(pickle.dumps(m))
    return m


def _build(tree, r1_rule=None, r2_rule="g2 or g3"):
    from cobra import Metabolite, Model, Reaction

    m = Model("ko")
    A, B = Metabolite("A", compartment="c"), Metabolite("B", compartment="c")
    r1 = Reaction("r1")
    r1.add_metabolites({A: -1, B: 1})
    r2 = Reaction("r2")
    r2.add_metabolites({B: -1, A: 1})
    r3 = Reaction("r3")
    r3.add_metabolites({A: -1})
    for r in (r1, r2, r3):
        r.bounds = INIT_BOUNDS[r.id]
    r1.gene_reaction_rule = r1_rule or ref_gpr.render(tree)
    r2.gene_reaction_rule = r2_rule
    m.add_reactions([r1, r2, r3])
    return m


def ops_menu(gene_ids):
    ops = [("gene_ko", g) for g in gene_ids]
    # only the flag, through its public setter (the gene's reactions keep their bounds until a knock-out is applied)
    ops += [("flag", g) for g in gene_ids]
    for k in range(1, len(gene_ids) + 1):
        for sub in itertools.combinations(gene_ids, k):
            for form in ("ids", "objects", "indices"):
                ops.append(("ko_model_genes", sub, form))
    ops += [("rxn_ko", r) for r in ("r1", "r2", "r3")]
    return ops


def expected(rules, knocked, direct):
    """State = (non-functional genes, reactions whose bounds were set to zero by an applied knock-out)."""
    exp = {}
    for rid, tree in rules.items():
        functional = ref_gpr.evaluate(tree, knocked)
        exp[rid] = {"bounds": (0, 0) if rid in direct else INIT_BOUNDS[rid], "functional": functional}
    return exp


def _zeroed_by(rules, flags, gene):
    return {rid for rid, t in rules.items() if gene in ref_gpr.genes(t) and not ref_gpr.evaluate(t, flags)}


def apply_op(m, op):
    from cobra.manipulation import knock_out_model_genes

    if op[0] == "gene_ko":
        m.genes.get_by_id(op[1]).knock_out()
        return None
    if op[0] == "flag":
        m.genes.get_by_id(op[1]).functional = False
        return None
    if op[0] == "rxn_ko":
        m.reactions.get_by_id(op[1]).knock_out()
        return None
    sub, form = op[1], op[2]
    if form == "ids":
        arg = list(sub)
    elif form == "objects":
        arg = [m.genes.get_by_id(g) for g in sub]
    else:
        arg = [m.genes.index(g) for g in sub]
    return knock_out_model_genes(m, arg)


RULES = {}


def next_state(state, op):
    knocked, direct = set(state[0]), set(state[1])
    if op[0] == "flag":
        return (knocked | {op[1]}, direct)
    if op[0] == "rxn_ko":
        return (knocked, direct | {op[1]})
    for g in ([op[1]] if op[0] == "gene_ko" else list(op[1])):
        knocked = knocked | {g}
        direct = direct | _zeroed_by(RULES["current"], knocked, g)
    return (knocked, direct)


def observe_state(m):
    return ({r.id: (r.lower_bound, r.upper_bound) for r in m.reactions},
            {r.id: r.functional for r in m.reactions},
            {g.id: g.functional for g in m.genes})


def restore(m, state, rules):
    """Put the model into `state` with plain public setters (no knock-out code involved)."""
    knocked, direct = state
    exp = expected(rules, knocked, direct)
    for g in m.genes:
        g.functional = g.id not in knocked
    for r in m.reactions:
        r.bounds = exp[r.id]["bounds"]


def check_state(m, state, rules, gene_ids):
    knocked, direct = state
    exp = expected(rules, knocked, direct)
    bounds, rfun, gfun = observe_state(m)
    P = []
    for rid in exp:
        if tuple(bounds[rid]) != tuple(exp[rid]["bounds"]):
            P.append(("bounds", f"{rid}: bounds {bounds[rid]} expected {exp[rid]['bounds']}"))
        if rfun[rid] != exp[rid]["functional"]:
            P.append(("reaction.functional", f"{rid}: {rfun[rid]} expected {exp[rid]['functional']}"))
    for g in gene_ids:
        if g in gfun and gfun[g] != (g not in knocked):
            P.append(("gene.functional", f"{g}: {gfun[g]}"))
    lp = observe.lp_problems(m)
    if lp:
        P.append(("solver bounds", lp[0]))
    return P


def shape_of(tree):
    if isinstance(tree, str):
        return "gene"
    return "%s(%s)" % (tree[0], ",".join(shape_of(t) for t in tree[1:]))


def explore_rule(tree, stats, profile="A", origin="fresh"):
    viol = []
    rules = {"r1": tree, "r2": ("or", "g2", "g3"), "r3": None}
    RULES["current"] = rules
    INIT_BOUNDS.clear()
    INIT_BOUNDS.update(PROFILES[profile])
    with warnings.catch_warnings():
        warnings.simplefilter("ignore")
        m = build(tree, origin)
    gene_ids = sorted(g.id for g in m.genes)
    ops = ops_menu(gene_ids)
    gene_rxns = {g: {rid for rid, t in rules.items() if g in ref_gpr.genes(t)} for g in gene_ids}
    text = ref_gpr.render(tree)

    def bad(check, op, state, detail, ctx=False):
        sig = {"check": check, "op": op[0] + ((":" + op[2]) if len(op) > 2 else ""), "rule_shape": shape_of(tree),
               "context": ctx}
        if (profile, origin) != ("A", "fresh"):
            sig["variant"] = profile + "/" + origin
        viol.append((sig,
                     {"rule": text, "state": [sorted(state[0]), sorted(state[1])], "op": _l(op), "context": ctx,
                      "profile": profile, "origin": origin},
                     f"rule r1: {text!r}; state knocked={sorted(state[0])} direct={sorted(state[1])}; op={op}\n{detail}"))

    init = (frozenset(), frozenset())
    P = check_state(m, init, rules, gene_ids)
    if P:
        bad("initial:" + P[0][0], ("init",), init, P[0][1])
        return viol
    seen = {init}
    frontier = [init]
    while frontier:
        nxt = []
        for state in frontier:
            for op in ops:
                restore(m, state, rules)
                stats["transitions"] = stats.get("transitions", 0) + 1
                try:
                    ret = apply_op(m, op)
                except Exception as exc:
                    bad("raised " + type(exc).__name__, op, state, repr(exc))
                    continue
                ns = next_state((set(state[0]), set(state[1])), op)
                ns = (frozenset(ns[0]), frozenset(ns[1]))
                P = check_state(m, ns, rules, gene_ids)
                for kind, detail in P[:2]:
                    bad(kind, op, state, detail)
                if op[0] == "ko_model_genes":
                    affected = set().union(*[gene_rxns[g] for g in op[1]])
                    want = sorted(r for r in affected if not ref_gpr.evaluate(rules[r], ns[0]))
                    got = sorted(r.id for r in ret)
                    if got != want:
                        bad("returned list", op, state, f"returned {got}, expected {want}")
                if not P and ns not in seen:
                    seen.add(ns)
                    nxt.append(ns)
        frontier = nxt
    stats["states"] = stats.get("states", 0) + len(seen)
    # context blocks: with m: op1 [with m: op2] -> restored
    gene_ops = [o for o in ops if o[0] == "gene_ko"]
    for op1 in ops:
        for op2 in [None] + gene_ops:
            restore(m, init, rules)
            stats["transitions"] = stats.get("transitions", 0) + 1
            try:
                with m:
                    apply_op(m, op1)
                    s1 = next_state((set(), set()), op1)
                    if op2 is not None:
                        with m:
                            apply_op(m, op2)
                            s2 = next_state((set(s1[0]), set(s1[1])), op2)
                            P = check_state(m, s2, rules, gene_ids)
                            for kind, detail in P[:1]:
                                bad(kind, op2, s1, detail, ctx=True)
                        P = check_state(m, s1, rules, gene_ids)
                        for kind, detail in P[:1]:
                            bad("after inner exit:" + kind, op2, s1, detail, ctx=True)
                    else:
                        P = check_state(m, s1, rules, gene_ids)
                        for kind, detail in P[:1]:
                            bad(kind, op1, init, detail, ctx=True)
                P = check_state(m, init, rules, gene_ids)
                for kind, detail in P[:1]:
                    bad("after exit:" + kind, op1, init, detail, ctx=True)
            except Exception as exc:
                bad("raised " + type(exc).__name__, op1, init, repr(exc), ctx=True)
                with warnings.catch_warnings():
                    warnings.simplefilter("ignore")
                    m = build(tree, origin)
    return viol


def _l(x):
    return [_l(y) for y in x] if isinstance(x, (tuple, list)) else x


def run_task(payload):
    stats, violations = {}, []
    for tree in payload["trees"]:
        tree = _t(tree)
        for profile, origin in payload.get("variants", [("A", "fresh")]):
            stats["rules"] = stats.get("rules", 0) + 1
            violations.extend(explore_rule(tree, stats, profile, origin))
    return {"violations": violations[:400], "stats": stats}


def _t(x):
    return tuple(_t(y) for y in x) if isinstance(x, (tuple, list)) else x


def replay(case):
    tree = ref_gpr.parse(case["rule"])
    viol = explore_rule(tree, {}, case.get("profile", "A"), case.get("origin", "fresh"))
    op = case["op"]
    return [{"sig": s, "detail": d} for s, c, d in viol
            if c["op"] == op and c["state"] == case["state"] and c["context"] == case["context"]]


def explore(ctx):
    fam = rule_family(ctx.tier)
    off = ctx.seed % len(fam)
    fam = fam[off:] + fam[:off]
    chunk = 6
    var = variants(ctx.tier)
    payloads = [{"trees": fam[i:i + chunk], "variants": var} for i in range(0, len(fam), chunk)]
    stats = {}
    with ctx.pool(timeout=3000) as pool:
        for i, status, r0 in pool.imap(payloads):
            r = ctx.collect(status, r0)
            if r is None:
                if status in ("abort", "timeout"):
                    ctx.violation({"check": "worker " + status}, {"trees": _l(payloads[i]["trees"])}, status)
                continue
            for k, v in r["stats"].items():
                stats[k] = stats.get(k, 0) + v
    ctx.cov.update({
        "states": stats.get("states", 0), "transitions": stats.get("transitions", 0),
        "traces_validated_against_impl": stats.get("transitions", 0),
        "evaluations": stats.get("transitions", 0),
        "distinct_nontrivial": len([t for t in fam if not isinstance(t, str)]),
        "rule": "for each of %d and/or rule trees (<=%d leaves) on r1 (r2: 'g2 or g3', r3: none): closure of (knocked genes, "
                "directly knocked reactions) states under Gene.knock_out, knock_out_model_genes (every subset as ids, "
                "objects and indices) and Reaction.knock_out; then every context block `with m: op1 [with m: op2]`; "
                "oracle = independent truth-table evaluator; non-trivial = rule is not a single gene"
                % (len(fam), 3 if ctx.tier == "quick" else 4),
        "exhaustive": True, "closed_fixpoint": True, "rules": len(fam),
        "variants": ["%s/%s" % v for v in var],
        "variant_rule": "bounds profile A %r / B %r x origin of the model (fresh; restored = all reactions removed inside a "
                        "rolled-back context; readded; copy; pickle)" % (PROFILES["A"], PROFILES["B"]),
    })
    ctx.sample({"rule": ref_gpr.render(fam[len(fam) // 2]), "ops": "all"})
    ctx.assumptions += ["states are re-established with the public setters gene.functional / reaction.bounds"]
