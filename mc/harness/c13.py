"""C13 - analyses leave the model exactly as they found it.

Fault DFS with the vsolver seam: every analysis x argument menu x model class x calling
context, fault-free and with every single (thorough: pair of) injected solver failure at the
k-th solve (raise SolverError / report infeasible / report undefined).  Oracle: ordered
snapshot before == after, user context exit restores the entry state, repeated calls agree."""
import math
import warnings

from .. import bench, observe

PROPERTY = "C13"
LEVEL = "model_checking"
INF = float("inf")

FAULTS = ("raise", "infeasible", "undefined")


# ---------------------------------------------------------------------------------------
# vsolver seam

class VSolver:
    def __init__(self):
        self.count = 0
        self.plan = {}  # k -> fault kind
        self._orig = None

    def install(self):
        # faults are injected where cobrapy calls the solver (optlang's public Model.optimize), so that optlang's
        # own internal retry logic is never interrupted half-way
        import optlang.interface as I

        self._orig = I.Model.optimize
        seam = self

        def optimize(model_self):
            seam.count += 1
            kind = seam.plan.get(seam.count)
            if kind == "raise":
                from optlang.exceptions import SolverError

                model_self.update()
                raise SolverError("injected solver failure")
            if kind in ("infeasible", "undefined"):
                model_self.update()
                model_self._status = kind
                return kind
            return seam._orig(model_self)

        I.Model.optimize = optimize

    def uninstall(self):
        import optlang.interface as I

        if self._orig is not None:
            I.Model.optimize = self._orig


# ---------------------------------------------------------------------------------------
# model classes

def build_model(kind):
    m = bench.build_bench("glpk_exact" if kind == "exact" else "glpk")
    R = m.reactions
    if kind in ("bench", "exact"):
        pass
    elif kind == "minimising":
        # a model that minimises (several analyses set a direction of their own and must put this one back)
        m.objective = "EX_A"
        m.objective_direction = "min"
    elif kind == "gene_flagged":
        # non-initial gene states: g3 knocked out (no reaction goes with it), g1 flagged through the setter only
        m.genes.g3.knock_out()
        m.genes.g1.functional = False
    elif kind == "objective_fixed":
        # the caller has pinned the objective with the library's own helper (outside any context): the model carries a
        # row with the very name that the analyses' helper calls use
        from cobra.util.solver import fix_objective_as_constraint

        fix_objective_as_constraint(m, fraction=0.5)
    elif kind == "tolerance":
        m.tolerance = 1e-8
        R.r1.bounds = (0.5, 10)
    elif kind == "cycle":
        from cobra import Reaction

        r = Reaction("r_back", lower_bound=0, upper_bound=6)
        r.add_metabolites({m.metabolites.B: -1, m.metabolites.A: 1})
        r.gene_reaction_rule = "g3"
        m.add_reactions([r])
    elif kind == "infeasible":
        R.r1.bounds = (7, 10)
        R.EX_A.bounds = (-5, 1000)
        R.EX_C.bounds = (0, 2)
    elif kind == "unbounded":
        for r in (R.EX_A, R.r1, R.r2, R.EX_C):
            r.bounds = (-INF if r.lower_bound < 0 else 0, INF)
        m.remove_cons_vars([m.constraints.uc])
    elif kind == "zero_optimum":
        R.EX_A.bounds = (0, 1000)
    elif kind == "empty_objective":
        R.EX_C.objective_coefficient = 0
    elif kind == "gap":
        # no route from B to C: growth needs a reaction from the universal model (gap filling has work to do)
        R.r2.bounds = (0, 0)
    elif kind == "two_substrates":
        # two alternative external substrates (either suffices): exercises the exchange/medium code paths
        from cobra import Metabolite, Reaction

        Ae, Se = Metabolite("A_e", compartment="e"), Metabolite("S_e", compartment="e")

        def rx(i, st, lb, ub, rule=""):
            r = Reaction(i, lower_bound=lb, upper_bound=ub)
            r.add_metabolites(st)
            r.gene_reaction_rule = rule
            return r

        m.add_reactions([rx("EX_A_e", {Ae: -1}, -5, 1000), rx("tA", {Ae: -1, m.metabolites.A: 1}, 0, 1000, "g1"),
                         rx("EX_S_e", {Se: -1}, -4, 1000), rx("tS", {Se: -1, m.metabolites.B: 1}, 0, 1000, "g3")])
        R.EX_A.bounds = (0, 1000)
    else:
        raise AssertionError(kind)
    m.solver.update()
    return m


MODEL_KINDS = ["bench", "cycle", "infeasible", "unbounded", "zero_optimum", "empty_objective", "two_substrates", "gap",
               "minimising", "gene_flagged", "tolerance", "exact", "objective_fixed"]


def analyses():
    """name -> (callable(model) -> result, flags)"""
    import cobra.flux_analysis as fa
    from cobra.flux_analysis import (double_gene_deletion, double_reaction_deletion, fastcc, find_blocked_reactions,
                                     find_essential_genes, find_essential_reactions, flux_variability_analysis, gapfill,
                                     geometric_fba, loopless_solution, moma, pfba, production_envelope, room,
                                     single_gene_deletion, single_reaction_deletion)
    from cobra.flux_analysis.reaction import assess, assess_precursors, assess_products
    from cobra.medium import minimal_medium
    from cobra.sampling import sample

    def universal():
        from cobra import Metabolite, Model, Reaction

        u = Model("universal")
        r = Reaction("u1", lower_bound=0, upper_bound=10)
        r.add_metabolites({Metabolite("A", compartment="c"): -1, Metabolite("C", compartment="e"): 1})
        r.gene_reaction_rule = "g2 and g3"  # genes the model already has
        u.add_reactions([r])
        return u

    def _optimal(sol):
        # a starting point / reference handed on to the next call must be a solution (under an injected fault the first
        # call reports none: the caller stops there, as a user would)
        if sol.status != "optimal":
            raise RuntimeError("no solution to hand on")
        return sol

    A = {
        "optimize": lambda m: m.optimize(),
        "optimize_min": lambda m: m.optimize(objective_sense="minimize"),
        "optimize_raise": lambda m: m.optimize(raise_error=True),
        "slim_optimize": lambda m: m.slim_optimize(),
        "slim_optimize_none": lambda m: m.slim_optimize(error_value=None),
        "fva": lambda m: flux_variability_analysis(m, processes=1),
        "fva_list_fraction": lambda m: flux_variability_analysis(m, reaction_list=["r1", "EX_C"], fraction_of_optimum=0.5, processes=1),
        "fva_loopless": lambda m: flux_variability_analysis(m, loopless=True, processes=1),
        "fva_pfba": lambda m: flux_variability_analysis(m, pfba_factor=1.2, processes=1),
        "blocked": lambda m: find_blocked_reactions(m, processes=1),
        "blocked_open": lambda m: find_blocked_reactions(m, open_exchanges=True, processes=1),
        "essential_genes": lambda m: find_essential_genes(m, processes=1),
        "essential_reactions": lambda m: find_essential_reactions(m, processes=1),
        "pfba": lambda m: pfba(m),
        "pfba_fraction": lambda m: pfba(m, fraction_of_optimum=0.5),
        "moma_linear": lambda m: moma(m, linear=True),
        "room": lambda m: room(m, linear=False),
        "room_linear": lambda m: room(m, linear=True),
        "geometric_fba": lambda m: geometric_fba(m, processes=1),
        "loopless_solution": lambda m: loopless_solution(m),
        "single_gene_deletion": lambda m: single_gene_deletion(m, processes=1),
        "single_reaction_deletion": lambda m: single_reaction_deletion(m, processes=1),
        "double_gene_deletion": lambda m: double_gene_deletion(m, ["g1", "g2"], ["g2", "g3"], processes=1),
        "double_reaction_deletion": lambda m: double_reaction_deletion(m, ["r1"], ["r2", "EX_A"], processes=1),
        "single_gene_deletion_moma": lambda m: single_gene_deletion(m, method="linear moma", processes=1),
        "single_reaction_deletion_room": lambda m: single_reaction_deletion(m, method="linear room", processes=1),
        "production_envelope": lambda m: production_envelope(m, ["EX_A"], objective="EX_C", points=3),
        # the same analyses with other argument combinations (defaults instead of explicit values and vice versa)
        "production_envelope_model_objective": lambda m: production_envelope(m, ["EX_A"], points=3),
        "production_envelope_carbon": lambda m: production_envelope(m, ["EX_A"], objective="EX_C", carbon_sources="EX_A", points=2),
        "optimize_max": lambda m: m.optimize(objective_sense="maximize"),
        "pfba_objective": lambda m: pfba(m, objective={m.reactions.r1: 1}),
        "pfba_reactions": lambda m: pfba(m, reactions=["r1"]),
        "moma_linear_reference": lambda m: moma(m, solution=_optimal(pfba(m)), linear=True),
        "room_reference": lambda m: room(m, solution=_optimal(pfba(m)), linear=True, delta=0.1, epsilon=0.01),
        "loopless_solution_fluxes": lambda m: loopless_solution(m, fluxes=_optimal(m.optimize()).fluxes),
        "essential_genes_threshold": lambda m: find_essential_genes(m, threshold=0.5, processes=1),
        "single_gene_deletion_list": lambda m: single_gene_deletion(m, gene_list=["g1", m.genes.g2], processes=1),
        "fva_objects_loopless_fraction": lambda m: flux_variability_analysis(
            m, reaction_list=[m.reactions.r2], loopless=True, fraction_of_optimum=0.5, processes=1),
        "minimal_medium_default": lambda m: minimal_medium(m),
        "model_summary_solution": lambda m: m.summary(solution=_optimal(pfba(m))),
        "assess": lambda m: assess(m, m.reactions.r1),
        "assess_precursors": lambda m: assess_precursors(m, m.reactions.r1),
        "assess_products": lambda m: assess_products(m, m.reactions.r1),
        "minimal_medium": lambda m: minimal_medium(m, 1.0),
        "minimal_medium_exports_open": lambda m: minimal_medium(m, 1.0, exports=True, open_exchanges=True),
        "minimal_medium_components": lambda m: minimal_medium(m, 1.0, minimize_components=2),
        "gapfill": lambda m: gapfill(m, universal(), demand_reactions=False),
        "fastcc": lambda m: fastcc(m),
        "sample_achr": lambda m: sample(m, 2, method="achr", seed=3),
        "sample_optgp": lambda m: sample(m, 2, method="optgp", processes=1, seed=3),
        "model_summary": lambda m: m.summary(),
        "model_summary_fva": lambda m: m.summary(fva=0.9),
        "metabolite_summary": lambda m: m.metabolites.B.summary(),
        "metabolite_summary_fva": lambda m: m.metabolites.B.summary(fva=0.9),
        "reaction_summary": lambda m: m.reactions.r1.summary(),
        "reaction_summary_fva": lambda m: m.reactions.r1.summary(fva=0.9),
    }
    return A


# big-M formulations with infinite bounds make GLPK abort the process ("invalid scale factor"): the
# formulations are documented for finite bounds; these combinations are not run
SKIP = {("unbounded", a) for a in ("room_reference", "fva_objects_loopless_fraction", "room", "room_linear", "single_reaction_deletion_room", "minimal_medium_components",
                                   "fva_loopless", "gapfill", "sample_achr", "sample_optgp", "geometric_fba")}

NON_UNIQUE = {"optimize_max", "pfba_objective", "pfba_reactions", "moma_linear_reference", "room_reference",
              "loopless_solution_fluxes", "optimize", "optimize_min", "optimize_raise", "pfba", "pfba_fraction", "moma_linear", "room", "room_linear",
              "geometric_fba", "loopless_solution", "gapfill", "sample_achr", "sample_optgp", "fastcc",
              "single_gene_deletion_moma", "single_reaction_deletion_room", "minimal_medium_components"}


def snapshot(m):
    v = observe.python_view(m)
    raw = observe.raw_lp(m)
    cfg = m.solver.configuration
    conf = {"presolve": cfg.presolve, "timeout": cfg.timeout, "verbosity": cfg.verbosity}
    for t in ("feasibility", "integrality"):
        try:
            conf[t] = getattr(cfg.tolerances, t)
        except Exception:
            pass
    return {"view": v, "lp": observe.lp_canonical(raw, ordered=False), "raw": raw, "conf": conf}


def snap_diff(a, b):
    d = observe.diff(a["view"], b["view"])
    if d:
        return "content differs at " + observe.first_path(d), "\n".join(d)
    if a["lp"] != b["lp"]:
        from .c03 import lp_diff
        from ..benchsearch import normalise

        ld = lp_diff(a["raw"], b["raw"])
        return "solver problem differs at " + normalise(observe.first_path(ld)), "\n".join(ld)
    if a["conf"] != b["conf"]:
        return "solver configuration differs", f"{a['conf']} vs {b['conf']}"
    return None


def canon(x):
    import numpy as np
    import pandas as pd

    def num(v):
        if v is None:
            return None
        try:
            v = float(v)
        except (TypeError, ValueError):
            return str(v)
        return None if math.isnan(v) else round(v, 6)

    if x is None:
        return None
    if isinstance(x, pd.DataFrame):
        if "ids" in x.columns:
            return sorted(("+".join(sorted(i)), num(g), s) for i, g, s in zip(x["ids"], x["growth"], x["status"]))
        return [(str(i),) + tuple(num(v) if not isinstance(v, str) else v for v in row) for i, row in zip(x.index, x.values)]
    if isinstance(x, pd.Series):
        return sorted((str(i), num(v)) for i, v in x.items())
    if hasattr(x, "objective_value") and hasattr(x, "status"):
        return ("solution", x.status, num(x.objective_value))
    if isinstance(x, (set, frozenset, list, tuple)):
        try:
            return sorted(str(getattr(i, "id", i)) for i in x)
        except Exception:
            return str(x)
    if isinstance(x, (float, int)):
        return num(x)
    if isinstance(x, dict):
        return sorted((str(k), str(v)) for k, v in x.items())
    if hasattr(x, "to_frame"):
        try:
            return canon(x.to_frame())
        except Exception:
            return type(x).__name__
    if hasattr(x, "reactions"):
        return sorted(r.id for r in x.reactions)
    return type(x).__name__


def run_once(kind, aname, plan, in_context):
    """Returns (problems, nsolves, outcome, result)"""
    fn = analyses()[aname]
    problems = []
    seam = VSolver()
    with warnings.catch_warnings():
        warnings.simplefilter("ignore")
        m = build_model(kind)
        entry = snapshot(m)
        outcome, result = "returned", None
        try:
            if in_context:
                with m:
                    m.reactions.r1.lower_bound = 1 if kind != "infeasible" else 8
                    before = snapshot(m)
                    seam.plan = dict(plan)
                    seam.install()
                    try:
                        result = fn(m)
                    except Exception as exc:
                        outcome = "raised " + type(exc).__name__
                    finally:
                        seam.uninstall()
                    after = snapshot(m)
                    d = snap_diff(before, after)
                    if d:
                        problems.append(d)
                exitsnap = snapshot(m)
                d = snap_diff(entry, exitsnap)
                if d:
                    problems.append(("after the user's context exit: " + d[0], d[1]))
            else:
                seam.plan = dict(plan)
                seam.install()
                try:
                    result = fn(m)
                except Exception as exc:
                    outcome = "raised " + type(exc).__name__
                finally:
                    seam.uninstall()
                after = snapshot(m)
                d = snap_diff(entry, after)
                if d:
                    problems.append(d)
        finally:
            seam.uninstall()
    return problems, seam.count, outcome, result, m


def plans_for(n, maxk, pairs):
    ks = list(range(1, min(n, maxk) + 1))
    if n > maxk:
        ks.append(n)
    plans = [{k: f} for k in ks for f in FAULTS]
    if pairs and n <= 30:
        import itertools

        for k1, k2 in itertools.combinations(range(1, n + 1), 2):
            plans.append({k1: "raise", k2: "infeasible"})
            plans.append({k1: "infeasible", k2: "raise"})
    return plans


def run_task(payload):
    kind, aname = payload["model"], payload["analysis"]
    if "single" in payload:
        # one run in a process of its own (used to find the run that killed a worker)
        plan, ctx = payload["single"]
        plan = {int(k): v for k, v in plan.items()}
        _, n, outcome, _, _ = run_once(kind, aname, plan, ctx)
        return {"violations": [], "stats": {}, "n": n, "outcome": outcome}
    maxk, pairs = payload["maxk"], payload["pairs"]
    stats = {"runs": 0, "fault_runs": 0}
    violations = []

    def report(problems, plan, ctx, outcome):
        for check, detail in problems[:2]:
            kinds = sorted(set(plan.values()))
            violations.append(({"analysis": aname, "model": kind, "check": check, "fault": "+".join(kinds) or "none",
                                "in_context": ctx},
                               {"model": kind, "analysis": aname, "plan": {str(k): v for k, v in plan.items()}, "context": ctx},
                               f"{aname} on {kind} plan={plan} in_context={ctx} outcome={outcome}\n{check}\n{detail}"))

    for ctx in (False, True):
        try:
            problems, n, outcome, result, m = run_once(kind, aname, {}, ctx)
        except Exception as exc:
            violations.append(({"analysis": aname, "model": kind, "check": "harness/context raised " + type(exc).__name__,
                                "fault": "none", "in_context": ctx},
                               {"model": kind, "analysis": aname, "plan": {}, "context": ctx}, repr(exc)))
            continue
        stats["runs"] += 1
        report(problems, {}, ctx, outcome)
        if not ctx:
            # repeatability: twice on the same object, once on a fresh model
            if aname not in NON_UNIQUE:
                fn = analyses()[aname]
                with warnings.catch_warnings():
                    warnings.simplefilter("ignore")
                    try:
                        again = canon(fn(m))
                        o2 = "returned"
                    except Exception as exc:
                        again, o2 = None, "raised " + type(exc).__name__
                first = canon(result)
                if (o2, again) != (outcome, first):
                    violations.append(({"analysis": aname, "model": kind, "check": "second call gives a different result",
                                        "fault": "none", "in_context": False},
                                       {"model": kind, "analysis": aname, "plan": {}, "context": False, "repeat": True},
                                       f"first {outcome} {first}\nsecond {o2} {again}"))
                stats["runs"] += 1
        for plan in plans_for(n, maxk, pairs):
            try:
                problems, _, outcome, _, _ = run_once(kind, aname, plan, ctx)
            except Exception as exc:
                violations.append(({"analysis": aname, "model": kind, "check": "context exit raised " + type(exc).__name__,
                                    "fault": "+".join(sorted(set(plan.values()))), "in_context": ctx},
                                   {"model": kind, "analysis": aname, "plan": {str(k): v for k, v in plan.items()}, "context": ctx},
                                   repr(exc)))
                continue
            stats["fault_runs"] += 1
            stats["outcome:" + outcome.split()[0]] = stats.get("outcome:" + outcome.split()[0], 0) + 1
            report(problems, plan, ctx, outcome)
    return {"violations": violations[:60], "stats": stats}


def replay(case):
    plan = {int(k): v for k, v in case["plan"].items()}
    if case.get("repeat"):
        r = run_task({"model": case["model"], "analysis": case["analysis"], "maxk": 0, "pairs": False})
        return [{"sig": s, "detail": d} for s, c, d in r["violations"] if c.get("repeat")]
    try:
        problems, n, outcome, _, _ = run_once(case["model"], case["analysis"], plan, case["context"])
    except Exception as exc:
        return [{"sig": {"analysis": case["analysis"], "model": case["model"],
                         "check": "context exit raised " + type(exc).__name__,
                         "fault": "+".join(sorted(set(plan.values()))) or "none", "in_context": case["context"]},
                 "detail": repr(exc)}]
    return [{"sig": {"analysis": case["analysis"], "model": case["model"], "check": c,
                     "fault": "+".join(sorted(set(plan.values()))) or "none", "in_context": case["context"]},
             "detail": d} for c, d in problems[:2]]


def explore(ctx):
    names = sorted(analyses())
    payloads = []
    for kind in MODEL_KINDS:
        for a in names:
            if (kind, a) in SKIP:
                continue
            payloads.append({"model": kind, "analysis": a, "maxk": 20 if ctx.tier == "quick" else 60,
                             "pairs": ctx.thorough})
    off = ctx.seed % len(payloads)
    payloads = payloads[off:] + payloads[:off]
    stats = {}
    with ctx.pool(timeout=1800) as pool:
        for i, status, r0 in pool.imap(payloads):
            r = ctx.collect(status, r0)
            if r is None:
                if status in ("abort", "timeout"):
                    # which run of the task killed (or hung) the worker?  Every run again, each in a process of its own.
                    p = payloads[i]
                    found = False
                    for uctx in (False, True):
                        (st0, r0), = pool.map([dict(p, single=({}, uctx))])
                        todo = [{}] if st0 != "ok" else [{}] + plans_for(r0["n"], p["maxk"], p["pairs"])
                        for plan in todo:
                            (st1, _), = pool.map([dict(p, single=({str(k): v for k, v in plan.items()}, uctx))])
                            if st1 != "ok":
                                found = True
                                ctx.violation({"analysis": p["analysis"], "model": p["model"], "check": "process " + st1,
                                               "kind": st1, "fault": "+".join(sorted(set(plan.values()))) or "none",
                                               "in_context": uctx},
                                              {"model": p["model"], "analysis": p["analysis"],
                                               "plan": {str(k): v for k, v in plan.items()}, "context": uctx},
                                              f"{p['analysis']} on {p['model']} plan={plan} in_context={uctx}: the process "
                                              f"running it ended with {st1} (no Python exception)")
                    if not found:
                        ctx.violation({"analysis": p["analysis"], "model": p["model"], "check": "process " + status,
                                       "fault": "unknown", "in_context": False},
                                      {"model": p["model"], "analysis": p["analysis"], "plan": {}, "context": False}, status)
                continue
            for k, v in r["stats"].items():
                stats[k] = stats.get(k, 0) + v
    ctx.cov.update({
        "states": len(payloads), "transitions": stats.get("runs", 0) + stats.get("fault_runs", 0),
        "traces_validated_against_impl": stats.get("runs", 0) + stats.get("fault_runs", 0),
        "evaluations": stats.get("runs", 0) + stats.get("fault_runs", 0), "distinct_nontrivial": stats.get("fault_runs", 0),
        "rule": "%d analyses x %d model classes (feasible bench, internal cycle, infeasible, unbounded, zero optimum, empty "
                "objective, two alternative substrates, gap, minimising, genes flagged non-functional, non-default tolerance, glpk_exact, objective pinned by fix_objective_as_constraint) x {outside, inside a user context after one edit}: fault-free run, repeat run, and every single "
                "injected solver failure at solve k <= %s (+ last) x {raise SolverError, report infeasible, report undefined}%s; "
                "ordered snapshot (content, raw LP, solver configuration) before == after; non-trivial = runs with an injected "
                "fault" % (len(names), len(MODEL_KINDS), 20 if ctx.tier == "quick" else 60,
                           "; all pairs of fault positions for N <= 30" if ctx.thorough else ""),
        "exhaustive": True, "fault_free_runs": stats.get("runs", 0), "fault_runs": stats.get("fault_runs", 0),
        "outcomes": {k: v for k, v in stats.items() if k.startswith("outcome:")},
        "skipped_combinations": sorted("%s/%s" % s for s in SKIP),
    })
    ctx.sample({"analysis": "fva_pfba", "model": "cycle", "plan": {"3": "infeasible"}, "context": True})
    ctx.assumptions += ["faults other than a failing LP solve are not modelled", "big-M analyses are not run on the model "
                        "with infinite bounds (GLPK aborts the process on infinite coefficients)", "parallel paths: C14"]
