"""C05 - flux variability analysis reports the true flux ranges.

Family F x objectives x option deviations (fraction_of_optimum, pfba_factor, loopless,
reaction_list), oracle = exact LP per reaction (sign-pattern enumeration for loopless)."""
import itertools
import math
import warnings

from .. import exactlp, families, oracles
from ..exactlp import OPT, UNB
from .c04 import _j, _u

PROPERTY = "C05"
LEVEL = "model_checking"
TOL = 1e-6

MENU_Q = [(0, 10), (-10, 10), (0, 0), (2, 10), (-10, -2), (0, float("inf"))]


def params(tier):
    if tier == "quick":
        return dict(nm=3, nr=3, K=(-1, 0, 1), d=1, menu=MENU_Q, opt_dev=1)
    return dict(nm=3, nr=3, K=(-1, 0, 1), d=1, menu=families.BOUNDS_MENU, opt_dev=2)


def thorough_passes():
    return [(dict(nm=3, nr=3, K=(-1, 0, 1), d=1, menu=families.BOUNDS_MENU, opt_dev=2), None),
            (dict(nm=3, nr=4, K=(-1, 0, 1), d=1, menu=[(0, 10), (-10, 10), (0, 0), (-10, 0), (2, 10), (-10, -2)], opt_dev=1),
             lambda n: len(n) == 4)]


def option_variants(ids, opt_dev, partial_pairs=True):
    """Deviation-bounded option menu: default + <= opt_dev options off their default."""
    dims = {
        "fraction": [1.0, 0.5, 0.0],
        "pfba_factor": [None, 1.0, 1.5],
        "loopless": [False, True],
        "reaction_list": ["all", "first_id", "last_two_objects"] if len(ids) > 1 else ["all", "first_id"],
    }
    keys = list(dims)
    base = {k: dims[k][0] for k in keys}
    yield dict(base)
    for n in range(1, opt_dev + 1):
        for ks in itertools.combinations(keys, n):
            for vals in itertools.product(*[dims[k][1:] for k in ks]):
                o = dict(base)
                o.update(dict(zip(ks, vals)))
                yield o
    if opt_dev < 2:
        # option pairs that meet in the same code (the flux-sum cap and the loop removal are both built on the
        # objective constraint at the requested fraction) are explored even when the deviation bound is 1
        for extra in ({"fraction": 0.5, "pfba_factor": 1.0}, {"fraction": 0.5, "pfba_factor": 1.5},
                      {"fraction": 0.5, "loopless": True},
                      # ... and a partial request meets every other option (the problem is built for the whole model, the
                      # loop runs over the requested reactions only)
                      ) + (({"pfba_factor": 1.0, "reaction_list": "first_id"},
                            {"pfba_factor": 1.5, "reaction_list": dims["reaction_list"][-1]}) if partial_pairs else ()
                           ) + (({"loopless": True, "reaction_list": dims["reaction_list"][-1]},
                                 {"fraction": 0.5, "reaction_list": "first_id"}) if partial_pairs is True else ()):
            o = dict(base)
            o.update(extra)
            yield o


def objective_menu(ids):
    out = [({ids[0]: 1}, "max")]
    if len(ids) > 1:
        out.append(({ids[-1]: 1}, "max"))
        out.append(({ids[-1]: 1}, "min"))
        out.append(({ids[0]: 1, ids[-1]: -2}, "max"))
    out.append(({}, "max"))
    return out


def objective_in_cycle(rxns, mets, obj):
    """Does an objective reaction take part in an internal cycle (its column depends on the other internal columns)?"""
    from fractions import Fraction as F

    ints = [r for r in rxns if len(r[1]) > 1]
    for rid in obj:
        if rid not in [r[0] for r in ints]:
            continue
        full = [[F(r[1].get(m, 0)) for r in ints] for m in mets]
        rest = [[F(r[1].get(m, 0)) for r in ints if r[0] != rid] for m in mets]
        if not rest[0]:
            continue
        if exactlp._rank(rest) == exactlp._rank(full):
            return True
    return False


def _val(x):
    return float(x) if not isinstance(x, str) else x


def check_model(net, bounds, P, stats, origin=None):
    import numpy as np
    from cobra.flux_analysis import flux_variability_analysis

    from .. import origins

    mets, rxns = families.as_data(net, bounds)
    ids = [r[0] for r in rxns]
    base = exactlp.FBA(mets, rxns)
    ok, _ = exactlp.feasible(base.lp())
    if not ok:
        stats["infeasible_models"] = stats.get("infeasible_models", 0) + 1
        return []
    model = families.build_model(mets, rxns)
    out = []
    patterns = None
    n_int = len(oracles.internal_ids(base))
    for obj, direction in objective_menu(ids)[:P.get("objs", 99)]:
        fba = exactlp.FBA(mets, rxns, obj, direction)
        st, z, _ = fba.optimum()
        if st != OPT:
            stats["no_optimum"] = stats.get("no_optimum", 0) + 1
            continue
        if origin:
            # the same model reached by another public route (copy, file format, rolled-back context, ...)
            model = families.build_model(mets, rxns)
        model.objective = {model.reactions.get_by_id(r): c for r, c in obj.items()}
        model.objective_direction = direction
        if origin:
            try:
                model = origins.derive(model, origin)
            except origins.OriginUnavailable:
                stats["origin_unavailable"] = stats.get("origin_unavailable", 0) + 1
                continue
        cache = {}
        for opts in option_variants(ids, P["opt_dev"], P.get("partial_pairs", True)):
            f = opts["fraction"]
            if f != 1.0 and ((direction == "max" and z < 0) or (direction == "min" and z > 0)):
                continue  # outside the property's precondition
            case = {"net": [list(c) for c in net], "bounds": [[_j(a), _j(b)] for a, b in bounds],
                    "objective": obj, "direction": direction, "options": opts}
            if origin:
                case["origin"] = origin

            def bad(check, detail, **extra):
                s = {"check": check, "loopless": opts["loopless"], "pfba": opts["pfba_factor"] is not None,
                     "fraction": f, "direction": direction, "list": opts["reaction_list"]}
                if origin:
                    s["origin"] = origin
                if opts["loopless"]:
                    s["objective_in_cycle"] = objective_in_cycle(rxns, mets, obj)
                s.update(extra)
                out.append((s, case, f"{detail}\nmodel: {rxns}\nobjective {obj} {direction} options {opts}"))

            key = (f, opts["pfba_factor"], opts["loopless"])
            if key not in cache:
                lp, info = oracles.constrained_lp(fba, f, opts["pfba_factor"])
                if lp is None:
                    cache[key] = None
                elif opts["loopless"]:
                    if n_int > 3:
                        cache[key] = "skip"
                    else:
                        if patterns is None:
                            patterns = oracles.loopfree_patterns(base)
                        cache[key] = oracles.loopless_ranges(fba, lp, patterns=patterns) or "forced_loop"
                else:
                    cache[key] = oracles.ranges(fba, lp)
            want = cache[key]
            if want == "skip":
                continue
            if want == "forced_loop":
                stats["forced_loop_skipped"] = stats.get("forced_loop_skipped", 0) + 1
                continue
            if opts["reaction_list"] == "all":
                rl, req = None, [r.id for r in model.reactions]   # model order (== ids unless the origin re-ordered)
            elif opts["reaction_list"] == "first_id":
                rl, req = [ids[0]], [ids[0]]
            else:
                rl, req = [model.reactions.get_by_id(i) for i in ids[-2:]], ids[-2:]
            stats["evaluations"] = stats.get("evaluations", 0) + 1
            try:
                with warnings.catch_warnings():
                    warnings.simplefilter("ignore")
                    res = flux_variability_analysis(model, reaction_list=rl, loopless=opts["loopless"],
                                                    fraction_of_optimum=f, pfba_factor=opts["pfba_factor"],
                                                    processes=1)
            except Exception as exc:
                if want is None:
                    continue
                unb = any(isinstance(v, str) for rng in want.values() for v in rng)
                if unb:
                    stats["unbounded_range_raised"] = stats.get("unbounded_range_raised", 0) + 1
                    continue
                bad("FVA raised on a feasible model", repr(exc), exc=type(exc).__name__)
                continue
            if want is None:
                bad("FVA returned although the constrained problem is infeasible", str(res))
                continue
            if list(res.index) != list(req):
                bad("index of the result differs from the request", f"{list(res.index)} vs {req}")
                continue
            nontrivial = False
            for rid in req:
                lo, hi = want[rid]
                glo, ghi = float(res.at[rid, "minimum"]), float(res.at[rid, "maximum"])
                for name, w, g in (("minimum", lo, glo), ("maximum", hi, ghi)):
                    if isinstance(w, str):  # unbounded: the true extreme is infinite
                        stats["unbounded_ranges"] = stats.get("unbounded_ranges", 0) + 1
                        if math.isfinite(g) and abs(g) < 1e6:
                            bad(f"{name} finite but the true range is unbounded", f"{rid}: reported {g}", which=name)
                        continue
                    w = float(w)
                    if w != 0:
                        nontrivial = True
                    if not (abs(g - w) <= TOL * max(1, abs(w))):
                        bad(f"{name} differs from the true extreme", f"{rid}: reported {g}, true {w}; all true ranges "
                            f"{ {k: (_val(a), _val(b)) for k, (a, b) in want.items()} }\nreported:\n{res}",
                            which=name, side="inside" if (g > w if name == "minimum" else g < w) else "outside")
                if glo > ghi + TOL:
                    bad("minimum > maximum", f"{rid}: {glo} > {ghi}")
            if nontrivial:
                stats["nontrivial"] = stats.get("nontrivial", 0) + 1
    return out


def _neg(x):
    if isinstance(x, str):
        return x
    return -x


def _compare(res, want, req, flip, bad, stats):
    """Reported frame vs exact ranges (flipped reactions: sign and ends swapped)."""
    if list(res.index) != list(req):
        bad("index of the result differs from the request", f"{list(res.index)} vs {req}")
        return
    for rid in req:
        lo, hi = want[rid]
        if rid in flip:
            lo, hi = _neg(hi), _neg(lo)
        glo, ghi = float(res.at[rid, "minimum"]), float(res.at[rid, "maximum"])
        for name, w, g in (("minimum", lo, glo), ("maximum", hi, ghi)):
            if isinstance(w, str):
                if math.isfinite(g) and abs(g) < 1e6:
                    bad(f"{name} finite but the true range is unbounded", f"{rid}: reported {g}", which=name)
                continue
            w = float(w)
            if w != 0:
                stats["nontrivial"] = stats.get("nontrivial", 0) + 1
            if not (abs(g - w) <= TOL * max(1, abs(w))):
                bad(f"{name} differs from the true extreme", f"{rid}: reported {g}, true {w}\nreported:\n{res}",
                    which=name, side="inside" if (g > w if name == "minimum" else g < w) else "outside")
        if glo > ghi + TOL:
            bad("minimum > maximum", f"{rid}: {glo} > {ghi}")


def check_spelling_and_history(net, bounds, stats):
    """Members with an internal cycle, (a) with every internal reaction written backwards (the same flows carry
    negative fluxes, cycles run 'negative'), (b) as a history on one model object: FVA (plain and loopless) on the
    network without one internal reaction, add that reaction, FVA again, remove it, FVA again - each step against the
    exact ranges of the network as it then is."""
    from cobra import Reaction
    from cobra.flux_analysis import flux_variability_analysis

    mets, rxns = families.as_data(net, bounds)
    ids = [r[0] for r in rxns]
    base = exactlp.FBA(mets, rxns)
    ok, _ = exactlp.feasible(base.lp())
    out = []
    if not ok or len(oracles.internal_ids(base)) > 3:
        return out
    internal = [r[0] for r in rxns if len(r[1]) > 1]
    obj, direction = {ids[-1]: 1}, "max"

    def fva(model, loopless, f):
        with warnings.catch_warnings():
            warnings.simplefilter("ignore")
            return flux_variability_analysis(model, loopless=loopless, fraction_of_optimum=f, processes=1)

    def exact(rx, loopless, f):
        used = [m for m in mets if any(m in r[1] for r in rx)]
        fba = exactlp.FBA(used, rx, {k: v for k, v in obj.items() if k in [r[0] for r in rx]}, direction)
        st, z, _ = fba.optimum()
        if st != OPT or (f != 1.0 and z < 0):
            return None
        lp, info = oracles.constrained_lp(fba, f, None)
        if lp is None:
            return None
        if loopless:
            b0 = exactlp.FBA(used, rx)
            return oracles.loopless_ranges(fba, lp, patterns=oracles.loopfree_patterns(b0)), objective_in_cycle(rx, used, obj)
        return oracles.ranges(fba, lp), False

    # (a) backwards spelling
    flip = set(internal)
    for loopless in (True, False):
        for f in (1.0, 0.5):
            ex = exact(rxns, loopless, f)
            if ex is None or ex[0] is None:
                continue
            want, in_cycle = ex
            stats["evaluations"] = stats.get("evaluations", 0) + 1
            case = {"net": [list(c) for c in net], "bounds": [[_j(a), _j(b)] for a, b in bounds], "pass": "backwards",
                    "loopless": loopless, "fraction": f}

            def bad(check, detail, **extra):
                s = {"check": check, "loopless": loopless, "fraction": f, "pass": "backwards"}
                if loopless:
                    s["objective_in_cycle"] = in_cycle
                s.update(extra)
                out.append((s, dict(case), f"{detail}\nmodel (internal reactions written backwards): {rxns}"))

            model = families.build_model(mets, rxns, flip=flip)
            model.objective = {model.reactions.get_by_id(r): (-c if r in flip else c) for r, c in obj.items()}
            try:
                res = fva(model, loopless, f)
            except Exception as exc:
                if any(isinstance(v, str) for rng in want.values() for v in rng):
                    continue
                bad("FVA raised on a feasible model", repr(exc), exc=type(exc).__name__)
                continue
            _compare(res, want, ids, flip, bad, stats)
    # (b) history: without k -> add k -> remove k
    for k in internal:
        if k == ids[-1]:
            continue
        rest = [r for r in rxns if r[0] != k]
        if not all(any(m in r[1] for r in rest) for m in mets):
            continue    # removing k would orphan a metabolite: keep the metabolite set fixed
        model = families.build_model(mets, rest)
        model.objective = {model.reactions.get_by_id(ids[-1]): 1}
        kdata = [r for r in rxns if r[0] == k][0]
        steps = [("without", rest, None), ("added", rxns, "add"), ("removed", rest, "remove")]
        for sname, rx, action in steps:
            if action == "add":
                r = Reaction(k)
                r.add_metabolites({model.metabolites.get_by_id(m): c for m, c in kdata[1].items()})
                r.bounds = (kdata[2], kdata[3])
                model.add_reactions([r])
            elif action == "remove":
                model.remove_reactions([model.reactions.get_by_id(k)])
            order = [x.id for x in model.reactions]
            for loopless in (True, False):
                ex = exact(rx, loopless, 1.0)
                if ex is None or ex[0] is None:
                    continue
                want, in_cycle = ex
                stats["evaluations"] = stats.get("evaluations", 0) + 1
                case = {"net": [list(c) for c in net], "bounds": [[_j(a), _j(b)] for a, b in bounds], "pass": "history",
                        "reaction": k, "step": sname, "loopless": loopless}

                def bad(check, detail, **extra):
                    s = {"check": check, "loopless": loopless, "pass": "history", "step": sname}
                    if loopless:
                        s["objective_in_cycle"] = in_cycle
                    s.update(extra)
                    out.append((s, dict(case), f"{detail}\nhistory: FVA on the network without {k}; add {k}; FVA; remove {k}; FVA "
                                               f"(step {sname})\nfull model: {rxns}"))

                try:
                    res = fva(model, loopless, 1.0)
                except Exception as exc:
                    if any(isinstance(v, str) for rng in want.values() for v in rng):
                        continue
                    bad("FVA raised on a feasible model", repr(exc), exc=type(exc).__name__)
                    continue
                _compare(res, want, order, set(), bad, stats)
    return out


def run_task(payload):
    P = payload["params"]
    stats, violations = {}, []
    if payload.get("spelling_history"):
        for net in payload["nets"]:
            net = tuple(tuple(c) for c in net)
            for bounds in families.bound_assignments(net, P["d"], P["menu"]):
                stats["models_spelling_history"] = stats.get("models_spelling_history", 0) + 1
                violations.extend(check_spelling_and_history(net, bounds, stats))
        return {"violations": violations[:300], "stats": stats}
    for net in payload["nets"]:
        net = tuple(tuple(c) for c in net)
        for bounds in families.bound_assignments(net, P["d"], P["menu"]):
            if payload.get("origins"):
                from .. import origins

                for origin in origins.ORIGINS:
                    stats["models_from_origins"] = stats.get("models_from_origins", 0) + 1
                    violations.extend(check_model(net, bounds, P, stats, origin))
                continue
            stats["models"] = stats.get("models", 0) + 1
            violations.extend(check_model(net, bounds, P, stats))
    return {"violations": violations[:300], "stats": stats}


def replay(case):
    net = tuple(tuple(c) for c in case["net"])
    bounds = tuple((_u(a), _u(b)) for a, b in case["bounds"])
    if case.get("pass") in ("backwards", "history"):
        import json

        out = check_spelling_and_history(net, bounds, {})
        return [{"sig": s, "detail": d} for s, c, d in out if json.loads(json.dumps(c)) == case]
    out = check_model(net, bounds, params("thorough"), {}, case.get("origin"))
    return [{"sig": s, "detail": d} for s, c, d in out
            if c["objective"] == case["objective"] and c["direction"] == case["direction"]
            and c["options"] == case["options"]]


def explore(ctx):
    P = params(ctx.tier)
    n_self = exactlp.selftest(limit=3000)
    # quick also covers the smallest networks with alternative routes (two boundary + two internal reactions)
    routes = (dict(nm=3, nr=4, K=(-1, 0, 1), d=1, menu=[(0, 10), (-10, 10), (-10, 0), (-10, -2), (2, 10)], opt_dev=1, objs=2,
                   partial_pairs="pfba" if ctx.tier == "quick" else True),
              lambda n: len(n) == 4 and sum(1 for c in n if families.is_boundary(c)) == 2)
    passes = [(P, None), routes] if ctx.tier == "quick" else thorough_passes()
    payloads, nets = [], []
    for PP, flt in passes:
        ns = [n for n in families.networks(PP["nm"], PP["nr"], PP["K"]) if flt is None or flt(n)]
        off = ctx.seed % len(ns)
        ns = ns[off:] + ns[:off]
        nets += ns
        chunk = 2 if ctx.tier == "quick" else 1
        payloads += [{"params": PP, "nets": ns[i:i + chunk]} for i in range(0, len(ns), chunk)]
    # members with an internal cycle: backwards spelling, and prime / add / remove histories on one model object
    from .c17 import has_internal_cycle

    PS = dict(nm=3, nr=4, K=(-1, 0, 1), d=1, menu=[(0, 10), (-10, 10), (-10, 0)] + ([(2, 10), (0, 0)] if ctx.thorough else []))
    cyc = [n for n in families.networks(PS["nm"], PS["nr"], PS["K"]) if has_internal_cycle(n)
           and (ctx.thorough or len(n) <= 3 or sum(1 for c in n if families.is_boundary(c)) >= 1)]
    payloads += [{"params": PS, "nets": cyc[i:i + 2], "spelling_history": True} for i in range(0, len(cyc), 2)]
    # origins: the alternative-route networks, reached by every other public route (mc/origins.py)
    PO = dict(routes[0], d=1 if ctx.thorough else 0, opt_dev=1, objs=2, partial_pairs=ctx.thorough)
    orig_nets = [n for n in families.networks(PO["nm"], PO["nr"], PO["K"]) if routes[1](n)]
    if ctx.tier == "quick":
        orig_nets = orig_nets[ctx.seed % 2::2]   # every second network (which half rotates with the seed)
    payloads += [{"params": PO, "nets": orig_nets[i:i + 2], "origins": True} for i in range(0, len(orig_nets), 2)]
    stats = {}
    with ctx.pool(timeout=3000) as pool:
        for i, status, res in pool.imap(payloads):
            r = ctx.collect(status, res)
            if r is None:
                if status in ("abort", "timeout"):
                    ctx.violation({"check": "worker " + status}, {"nets": payloads[i]["nets"]}, status)
                continue
            for k, v in r["stats"].items():
                stats[k] = stats.get(k, 0) + v
    ctx.cov.update({
        "states": stats.get("models", 0), "transitions": stats.get("evaluations", 0),
        "traces_validated_against_impl": stats.get("evaluations", 0),
        "evaluations": stats.get("evaluations", 0), "distinct_nontrivial": stats.get("nontrivial", 0),
        "rule": "family F(nm=%d, nr<=%d, %d-value bounds menu, <=%d bound deviations) x objective menu x FVA option "
                "variants with <=%d options off their default (fraction 1/0.5/0, pfba_factor None/1/1.5, loopless, "
                "reaction_list all/id/objects); exact LP ranges per reaction; loopless by exhaustive sign patterns of "
                "the internal reactions; non-trivial = some true extreme is non-zero"
                % (P["nm"], P["nr"], len(P["menu"]), P["d"], P["opt_dev"]),
        "exhaustive": True, "networks": len(nets), "models": stats.get("models", 0), "stats": stats,
        "exactlp_selftest_lps": n_self,
        "origins_pass": "%d networks with two boundary and two internal reactions x %d origins (%s): %d models; the route "
                        "itself failed for %d (judged by C03/C10/C11/C12)" % (
                            len(orig_nets), len(__import__("mc.origins", fromlist=["ORIGINS"]).ORIGINS),
                            ", ".join(__import__("mc.origins", fromlist=["ORIGINS"]).ORIGINS),
                            stats.get("models_from_origins", 0), stats.get("origin_unavailable", 0)),
        "spelling_history_pass": "%d members with an internal cycle x <=1 bound deviation: every internal reaction written "
                                 "backwards (loopless/plain x fraction 1/0.5), and histories FVA / add reaction / FVA / remove "
                                 "reaction / FVA on one model object (%d models)" % (len(cyc), stats.get("models_spelling_history", 0)),
    })
    ctx.sample({"net": [list(c) for c in nets[0]], "options": "default and deviations"})
    ctx.assumptions += ["fractions < 1 only when the optimum has the sign of the direction (property precondition)",
                        "members whose bounds force a loop are skipped for loopless=True (documented behaviour)",
                        "true range unbounded: only a finite reported extreme is judged"]
