"""C06 - deletion analyses report the optimum of each knocked-out model.

Family F with gene rules x request shapes (None, ids, objects, partial, overlapping lists) x
methods (fba, linear moma) ; oracle = exact LP on an independently knocked-out copy with
truth-table gene evaluation."""
import itertools
import math
import warnings

from .. import exactlp, families, oracles, ref_gpr
from ..exactlp import OPT, fr, solve
from .c04 import _j, _u

PROPERTY = "C06"
LEVEL = "model_checking"
TOL = 1e-6

RULESETS = [
    ["g1", "g2", "g3", "g4"],
    ["g1 and g2", "g2 or g3", "", "g1"],
    ["(g1 and g2) or g3", "g1", "g3", "g2 and g3"],
    ["g1 or g2", "g1 or g2", "g1 or g2", "g1 or g2"],
    # the same shapes under other gene names: cobrapy iterates over a set of frozensets of ids, so the
    # order in which combinations are evaluated depends on the names
    ["b2 and a7", "a7 or x1", "", "b2"],
    ["(k9 and b2) or zz", "k9", "zz", "b2 and zz"],
    ["q and p", "p or r", "q", ""],
]
BOUND_DEVS = [(-10, 10), (0, 10), (2, 10), (0, 0)]


def model_variants(net):
    base = tuple(families.default_bounds(c) for c in net)
    yield base
    for alt in BOUND_DEVS:
        if alt != base[0]:
            yield (alt,) + base[1:]
    if len(net) > 1:
        yield base[:-1] + ((2, 10),)


def check_model(net, bounds, ruleset, stats, rich=False):
    import zlib

    from .. import origins

    # every model from the fresh and the observed origin, plus one further origin (mc/origins.py) chosen by a checksum
    # of the case, so that all origins are spread over the family and a case always gets the same one
    extra = origins.ORIGINS[zlib.crc32(repr((net, bounds, tuple(ruleset))).encode()) % len(origins.ORIGINS)]
    out = []
    for origin in dict.fromkeys(("fresh", "observed", "gene_knocked", extra)):
        out.extend(_check_model(net, bounds, ruleset, stats, rich, origin))
    return out


def _check_model(net, bounds, ruleset, stats, rich=False, origin="fresh"):
    import numpy as np
    import pandas as pd
    from cobra.flux_analysis import (double_gene_deletion, double_reaction_deletion, find_essential_genes,
                                     find_essential_reactions, single_gene_deletion, single_reaction_deletion)

    mets, rxns = families.as_data(net, bounds)
    ids = [r[0] for r in rxns]
    rules_text = {rid: ruleset[k] for k, rid in enumerate(ids)}
    trees = {rid: ref_gpr.parse(t) for rid, t in rules_text.items()}
    genes = sorted(set().union(*[ref_gpr.genes(t) for t in trees.values()]))
    oid = ids[-1]
    fba = exactlp.FBA(mets, rxns, {oid: 1}, "max")
    st0, z0, _ = fba.optimum()
    if st0 != OPT:
        return []
    with warnings.catch_warnings():
        warnings.simplefilter("ignore")
        model = families.build_model(mets, rxns, rules=rules_text)
    model.objective = {model.reactions.get_by_id(oid): 1}
    pre = set()   # genes that are already knocked out when the analyses are called
    if origin == "observed":
        # the model has been read through the public API before (copies of its parts, string forms, a solve, summaries)
        from .. import prehistory

        prehistory.observe_everything(model)
    elif origin == "gene_knocked":
        # a non-initial gene state: the first gene was knocked out (outside any context) before the analyses are called;
        # every result is then the one of the model with that gene absent as well, and the gene stays knocked out
        if not genes:
            return []
        model.genes.get_by_id(genes[0]).knock_out()
        pre = {genes[0]}
    elif origin != "fresh":
        from .. import origins

        try:
            model = origins.derive(model, origin)
        except origins.OriginUnavailable:
            stats["origin_unavailable"] = stats.get("origin_unavailable", 0) + 1
            return []
        stats["models_from_origins"] = stats.get("models_from_origins", 0) + 1
    out = []
    cache = {}

    def exact(closed):
        key = frozenset(closed) | base_closed
        if key not in cache:
            cache[key] = fba.optimum(closed=key)[:2]
        return cache[key]

    def closed_by_genes(gs):
        return {rid for rid, t in trees.items() if t is not None and not ref_gpr.evaluate(t, set(gs) | pre)}

    base_closed = frozenset(closed_by_genes(())) if pre else frozenset()
    if pre:
        st0, z0 = exact(())
        if st0 != OPT:
            return []

    def mk(fn, **kw):
        c = {"net": [list(x) for x in net], "bounds": [[_j(a), _j(b)] for a, b in bounds], "rules": list(ruleset), "fn": fn}
        c.update(kw)
        if origin != "fresh":
            c["origin"] = origin
        return c

    def bad(case, check, detail, **extra):
        s = {"fn": case["fn"], "check": check, "method": case.get("method", "fba")}
        if origin != "fresh":
            s["origin"] = origin
        s.update(extra)
        out.append((s, case, f"{detail}\nmodel {rxns}\nrules {rules_text}\ncase {case}"))

    def check_frame(case, res, combos, entity, method, ref=None):
        """combos: list of frozensets expected; each exactly once."""
        got = [frozenset(x) for x in res["ids"]]
        if sorted(map(sorted, got)) != sorted(map(sorted, set(combos))):
            missing = [sorted(c) for c in set(combos) - set(got)]
            dup = [sorted(c) for c in set(got) if got.count(c) > 1]
            extra = [sorted(c) for c in set(got) - set(combos)]
            bad(case, "rows differ from the requested combinations", f"missing {missing} duplicate {dup} extra {extra}")
            return
        for idsset, growth, status in zip(got, res["growth"], res["status"]):
            closed = (set(idsset) if entity == "reaction" else closed_by_genes(idsset)) | base_closed
            if method == "fba":
                st, z = exact(closed)
                if st == OPT:
                    if status != "optimal":
                        bad(case, "status not optimal although an optimum exists", f"{sorted(idsset)}: {status}")
                    elif not (abs(growth - float(z)) <= TOL * max(1, abs(float(z)))):
                        bad(case, "growth differs from the optimum of the knocked-out model",
                            f"{sorted(idsset)} (closes {sorted(closed)}): {growth} vs {z}")
                    if float(z) != float(z0):
                        stats["nontrivial"] = stats.get("nontrivial", 0) + 1
                else:
                    if status == "optimal":
                        bad(case, "status optimal although no optimum exists", f"{sorted(idsset)}: growth {growth}")
                    if not (isinstance(growth, float) and math.isnan(growth)):
                        bad(case, "growth is not NaN although no optimum exists", f"{sorted(idsset)}: {growth} ({status})")
            else:
                feas, _ = exactlp.feasible(fba.lp(closed))
                if not feas:
                    if status == "optimal":
                        bad(case, "status optimal although the knocked-out model is infeasible", f"{sorted(idsset)}")
                    continue
                if status != "optimal":
                    bad(case, "status not optimal although the knocked-out model is feasible", f"{sorted(idsset)}: {status}")
                    continue
                stD, D, lp, ts = oracles.min_distance(fba, ref, closed)
                lp2 = lp.copy()
                lp2.row({t: 1 for t in ts.values()}, None, D * (1 + fr("1e-9")) + fr("1e-9"))
                lo = solve(lp2, fba.cvec(), "min")[1]
                hi = solve(lp2, fba.cvec(), "max")[1]
                if not (float(lo) - TOL * max(1, abs(float(lo))) <= growth <= float(hi) + TOL * max(1, abs(float(hi)))):
                    bad(case, "growth is not the objective at a minimal-adjustment solution",
                        f"{sorted(idsset)}: {growth} not in [{lo}, {hi}] (minimal distance {D})")
                if float(D) != 0:
                    stats["nontrivial"] = stats.get("nontrivial", 0) + 1

    def run(case, fn, *a, **kw):
        stats["evaluations"] = stats.get("evaluations", 0) + 1
        try:
            with warnings.catch_warnings():
                warnings.simplefilter("ignore")
                return fn(model, *a, processes=1, **kw)
        except Exception as exc:
            bad(case, "raised " + type(exc).__name__, repr(exc))
            return None

    R = model.reactions
    G = model.genes
    # ---- single reaction deletion
    req = [("none", None, ids), ("ids", ids[:1], ids[:1]), ("objects", [R.get_by_id(i) for i in ids[-2:]], ids[-2:]),
           ("ids_all_reversed", ids[::-1], ids), ("empty", [], [])]
    for name, arg, want in req:
        case = mk("single_reaction_deletion", request=name)
        res = run(case, single_reaction_deletion, arg)
        if res is not None:
            check_frame(case, res, [frozenset([i]) for i in want], "reaction", "fba")
            if name == "none":
                # knockout accessor: ids, objects and sets address the same rows
                try:
                    a = res.knockout[ids[0]]
                    b = res.knockout[R.get_by_id(ids[0])]
                    c = res.knockout[{ids[0]}]
                    if not (len(a) == len(b) == len(c) == 1 and a.index.equals(b.index) and a.index.equals(c.index)):
                        bad(case, "knockout accessor returns different rows for id / object / set", f"{a}\n{b}\n{c}")
                except Exception as exc:
                    bad(case, "knockout accessor raised " + type(exc).__name__, repr(exc))
    # ---- double reaction deletion
    if len(ids) >= 2:
        dreq = [("none", None, None, ids, ids), ("equal", ids, ids, ids, ids),
                ("disjoint", ids[:1], ids[1:], ids[:1], ids[1:]),
                ("overlapping", ids[1:], ids[:2], ids[1:], ids[:2]),
                ("objects", [R.get_by_id(i) for i in ids[-1:]], ids, ids[-1:], ids),
                ("second_empty", ids, [], ids, []), ("first_empty", [], ids[:2], [], ids[:2])]
        for name, l1, l2, w1, w2 in dreq:
            case = mk("double_reaction_deletion", request=name)
            res = run(case, double_reaction_deletion, l1, l2)
            if res is not None:
                check_frame(case, res, [frozenset(p) for p in itertools.product(w1, w2)], "reaction", "fba")
    # ---- genes
    if genes:
        greq = [("none", None, genes), ("ids", genes[:1], genes[:1]), ("objects", [G.get_by_id(g) for g in genes[-2:]], genes[-2:]),
                ("empty", [], [])]
        for name, arg, want in greq:
            case = mk("single_gene_deletion", request=name)
            res = run(case, single_gene_deletion, arg)
            if res is not None:
                check_frame(case, res, [frozenset([g]) for g in want], "gene", "fba")
        if len(genes) >= 2:
            dg = [("none", None, None, genes, genes), ("disjoint", genes[1:], genes[:1], genes[1:], genes[:1]),
                  ("overlapping", genes[:2], genes[-2:], genes[:2], genes[-2:])]
            for name, l1, l2, w1, w2 in dg:
                case = mk("double_gene_deletion", request=name)
                res = run(case, double_gene_deletion, l1, l2)
                if res is not None:
                    check_frame(case, res, [frozenset(p) for p in itertools.product(w1, w2)], "gene", "fba")
    # ---- linear MOMA (needs a feasible wild type: yes, st0 == OPT)
    with warnings.catch_warnings():
        warnings.simplefilter("ignore")
        from cobra.flux_analysis import pfba

        ref_sol = model.optimize()
        ref_default = pfba(model)
    from cobra.core import Solution

    # the same reference listed in another reaction order (e.g. computed before the model was re-ordered)
    ref_rev = Solution(ref_sol.objective_value, ref_sol.status, ref_sol.fluxes[::-1], ref_sol.reduced_costs[::-1],
                       ref_sol.shadow_prices[::-1])
    for refname, refarg, refsol in (("given", ref_sol, ref_sol), ("default", None, ref_default),
                                    ("given_reordered", ref_rev, ref_sol)):
        refd = {r: float(refsol.fluxes[r]) for r in ids}
        case = mk("single_reaction_deletion", request="none", method="linear moma", ref=refname)
        res = run(case, single_reaction_deletion, None, method="linear moma", solution=refarg)
        if res is not None:
            check_frame(case, res, [frozenset([i]) for i in ids], "reaction", "moma", refd)
        if genes and (rich or refname.startswith("given")):
            case = mk("single_gene_deletion", request="none", method="linear moma", ref=refname)
            res = run(case, single_gene_deletion, None, method="linear moma", solution=refarg)
            if res is not None:
                check_frame(case, res, [frozenset([g]) for g in genes], "gene", "moma", refd)
    # ---- essential sets
    z0f = float(z0)
    # (with a threshold of zero or below, only knock-outs without any solution - or with a negative optimum - count)
    for thr_name, thr in (("default", None), ("half", z0f / 2), ("zero", 0.0), ("negative", -1.0)):
        threshold = z0f * 1e-2 if thr is None else thr
        for fn, entity, items in ((find_essential_reactions, "reaction", ids), (find_essential_genes, "gene", genes)):
            if not items:
                continue
            case = mk(fn.__name__, threshold=thr_name)
            stats["evaluations"] = stats.get("evaluations", 0) + 1
            want, unsure = set(), set()
            for it in items:
                closed = {it} if entity == "reaction" else closed_by_genes([it])
                st, z = exact(closed)
                if st != OPT:
                    want.add(it)
                elif abs(float(z) - threshold) <= 1e-6 * max(1, abs(threshold)):
                    unsure.add(it)
                elif float(z) < threshold:
                    want.add(it)
            try:
                with warnings.catch_warnings():
                    warnings.simplefilter("ignore")
                    got = {x.id for x in fn(model, threshold=thr, processes=1)}
            except Exception as exc:
                bad(case, "raised " + type(exc).__name__, repr(exc))
                continue
            if (got - unsure) != (want - unsure):
                bad(case, "essential set differs", f"returned {sorted(got)}, expected {sorted(want)} (undecided {sorted(unsure)})")
    if pre:
        # the gene state the caller had set is still there
        case = mk("all", request="gene state afterwards")
        for g in pre:
            if model.genes.get_by_id(g).functional:
                bad(case, "a gene that was knocked out before the analyses is functional afterwards", g)
        for rid in base_closed:
            if tuple(model.reactions.get_by_id(rid).bounds) != (0, 0):
                bad(case, "a reaction closed by an earlier knock-out is open afterwards",
                    f"{rid}: {model.reactions.get_by_id(rid).bounds}")
    return out


def run_task(payload):
    stats, violations = {}, []
    for net in payload["nets"]:
        net = tuple(tuple(c) for c in net)
        for bounds in model_variants(net):
            for ruleset in RULESETS:
                stats["models"] = stats.get("models", 0) + 1
                violations.extend(check_model(net, bounds, ruleset, stats, payload.get("rich", False)))
    return {"violations": violations[:300], "stats": stats}


def replay(case):
    import json

    net = tuple(tuple(c) for c in case["net"])
    bounds = tuple((_u(a), _u(b)) for a, b in case["bounds"])
    out = check_model(net, bounds, case["rules"], {}, rich=True)
    return [{"sig": s, "detail": d} for s, c, d in out if json.loads(json.dumps(c)) == case]


def explore(ctx):
    P = dict(nm=3, nr=4 if ctx.thorough else 3, K=(-1, 0, 1))
    n_self = exactlp.selftest(limit=3000)
    nets = [n for n in families.networks(P["nm"], P["nr"], P["K"]) if any(families.is_boundary(c) for c in n)]
    off = ctx.seed % len(nets)
    nets = nets[off:] + nets[:off]
    payloads = [{"nets": nets[i:i + 1], "rich": ctx.thorough} for i in range(len(nets))]
    stats = {}
    with ctx.pool(timeout=3000) as pool:
        for i, status, r0 in pool.imap(payloads):
            r = ctx.collect(status, r0)
            if r is None:
                if status in ("abort", "timeout"):
                    ctx.violation({"fn": "", "check": "worker " + status}, {"nets": payloads[i]["nets"]}, status)
                continue
            for k, v in r["stats"].items():
                stats[k] = stats.get(k, 0) + v
    ctx.cov.update({
        "states": stats.get("models", 0), "transitions": stats.get("evaluations", 0),
        "traces_validated_against_impl": stats.get("evaluations", 0),
        "evaluations": stats.get("evaluations", 0), "distinct_nontrivial": stats.get("nontrivial", 0),
        "rule": "members of F(nm=%d, nr<=%d) with a boundary reaction x bound variants (default, first reaction deviating, "
                "last reaction forced) x %d gene-rule assignments (distinct, shared, nested, isozymes) x requests (None, ids, "
                "objects, reversed, equal/disjoint/overlapping double lists) x methods fba / linear moma (reference given / "
                "default) + essential genes/reactions (default and half-optimum threshold) + knockout accessor; non-trivial "
                "= knock-out changes the optimum / needs a non-zero adjustment" % (P["nm"], P["nr"], len(RULESETS)),
        "exhaustive": True, "networks": len(nets), "models": stats.get("models", 0), "exactlp_selftest_lps": n_self,
        "origins": "every model from the origins fresh and observed, plus one further origin of mc/origins.py chosen by a "
                   "checksum of the case (%d models; route itself failed for %d)" % (
                       stats.get("models_from_origins", 0), stats.get("origin_unavailable", 0)),
    })
    ctx.sample({"net": [list(c) for c in nets[0]], "rules": RULESETS[1]})
    ctx.assumptions += ["linear MOMA: reported growth must lie in the exact range of the objective over minimal-adjustment "
                        "solutions (the minimiser need not be unique)",
                        "inputs within 1e-6 of the essentiality threshold are not judged", "processes=1 (C14 covers pools)"]
