"""C16 - every flux sample is a feasible flux distribution.

Choice-point DFS over the answers of the samplers' random source (every randint value x a
5-point menu for uniform) to a depth bound, with the walk state saved/restored; independent
feasibility check computed from the original model; finite menus of seeds/n/thinning/
processes/methods exhaustively."""
import itertools
import math
import warnings

PROPERTY = "C16"
LEVEL = "model_checking"

EPS = 1e-9
# numpy.random.uniform(a, b) draws from [a, b): b itself is not a legal answer
UNIFORM_MENU = ["mid", "lo", "lo+", "hi-", "q3"]


def models():
    from cobra import Metabolite, Model, Reaction

    def base(name, b_v1=(0, 10), b_ex=(-10, 10), cycle=True):
        m = Model(name)
        A, B = Metabolite("A", compartment="c"), Metabolite("B", compartment="c")

        def rx(i, st, lb, ub):
            r = Reaction(i, lower_bound=lb, upper_bound=ub)
            r.add_metabolites(st)
            return r

        rs = [rx("EX_A", {A: -1}, *b_ex), rx("v1", {A: -1, B: 1}, *b_v1), rx("EX_B", {B: -1}, -10, 10)]
        if cycle:
            rs.append(rx("v2", {B: -1, A: 1}, 0, 5))
        m.add_reactions(rs)
        m.objective = "v1"
        return m

    def bigger(name, **kw):
        """base + a second branch A -> C -> B so that the polytope keeps enough dimensions"""
        m = base(name, **kw)
        C = Metabolite("C", compartment="c")
        r3 = Reaction("v3", lower_bound=0, upper_bound=8)
        r3.add_metabolites({m.metabolites.A: -1, C: 1})
        r4 = Reaction("v4", lower_bound=-4, upper_bound=8)
        r4.add_metabolites({C: -1, m.metabolites.B: 1})
        ex = Reaction("EX_C", lower_bound=-3, upper_bound=3)
        ex.add_metabolites({C: -1})
        m.add_reactions([r3, r4, ex])
        return m

    out = [("homogeneous", base("homogeneous")), ("forced", base("forced", b_v1=(2, 10))),
           ("fixed", bigger("fixed", b_v1=(3, 3)))]
    m = base("ineq")
    c = m.problem.Constraint(m.reactions.v1.flux_expression + m.reactions.EX_B.flux_expression, lb=-3, ub=6, name="user_ineq")
    m.add_cons_vars([c])
    out.append(("user_inequality", m))
    m = base("ineq0")
    # a one-sided inequality whose finite bound is exactly zero
    c = m.problem.Constraint(m.reactions.v1.flux_expression - 3 * m.reactions.v2.flux_expression, lb=0, name="user_ineq0")
    m.add_cons_vars([c])
    out.append(("user_inequality_zero_bound", m))
    m = bigger("eq")
    c = m.problem.Constraint(m.reactions.v1.flux_expression - 2 * m.reactions.v2.flux_expression, lb=1, ub=1, name="user_eq")
    m.add_cons_vars([c])
    out.append(("user_equality", m))
    # an auxiliary solver variable (with its defining constraint) registered between the reactions: the solver's
    # variables are then not (forward, reverse) pairs in reaction order
    m = base("auxvar", cycle=False)
    aux = m.problem.Variable("aux", lb=0, ub=6)
    c = m.problem.Constraint(m.reactions.v1.flux_expression - aux, lb=0, ub=0, name="aux_def")
    m.add_cons_vars([aux, c])
    A, B = m.metabolites.A, m.metabolites.B
    r = Reaction("v2", lower_bound=0, upper_bound=5)
    r.add_metabolites({B: -1, A: 1})
    r3 = Reaction("v5", lower_bound=-2, upper_bound=4)
    r3.add_metabolites({A: -1, B: 1})
    m.add_reactions([r, r3])
    out.append(("aux_variable_between_reactions", m))
    return out


def independent_check(model_data, row, feas_tol, bounds_tol):
    """model_data: (S, lbs, ubs, user constraints [(coefs, lb, ub)]) from the ORIGINAL model.
    Returns (ok, margin) where margin > 0 means comfortably feasible/infeasible distance from the thresholds."""
    import numpy as np

    S, lbs, ubs, users = model_data
    worst = 0.0
    ok = True
    sv = np.abs(S @ row).max() if S.size else 0.0
    if sv >= feas_tol:
        ok = False
    near = abs(sv - feas_tol)
    lbe = (row - lbs).min()
    ube = (ubs - row).min()
    if lbe <= -bounds_tol or ube <= -bounds_tol:
        ok = False
    near = min(near, abs(lbe + bounds_tol), abs(ube + bounds_tol))
    for coefs, lo, hi in users:
        val = float(coefs @ row)
        if lo == hi:
            if abs(val - lo) >= feas_tol:
                ok = False
            near = min(near, abs(abs(val - lo) - feas_tol))
        else:
            if val - lo <= -bounds_tol or hi - val <= -bounds_tol:
                ok = False
            near = min(near, abs(val - lo + bounds_tol), abs(hi - val + bounds_tol))
    return ok, near


def extract_data(model):
    import numpy as np
    from cobra.util.array import create_stoichiometric_matrix

    S = create_stoichiometric_matrix(model)
    lbs = np.array([r.lower_bound for r in model.reactions], dtype=float)
    ubs = np.array([r.upper_bound for r in model.reactions], dtype=float)
    users = []
    ids = [r.id for r in model.reactions]
    for c in model.constraints:
        if c.name in model.metabolites:
            continue
        coefs = np.zeros(len(ids))
        lin = c.get_linear_coefficients(c.variables)
        lo, hi = -math.inf if c.lb is None else float(c.lb), math.inf if c.ub is None else float(c.ub)
        rnames = {r.id for r in model.reactions} | {r.reverse_id for r in model.reactions}
        for var, k in lin.items():
            for j, r in enumerate(model.reactions):
                if var.name == r.id:  # the reverse variable carries the negated coefficient
                    coefs[j] += float(k)
            if var.name not in rnames and float(k) != 0:
                # an auxiliary variable a in [la, ua] with coefficient k: the fluxes must satisfy
                # lo - max(k a) <= coefs.v <= hi - min(k a)
                la = -math.inf if var.lb is None else float(var.lb)
                ua = math.inf if var.ub is None else float(var.ub)
                ends = (float(k) * la, float(k) * ua)
                lo, hi = lo - max(ends), hi - min(ends)
        users.append((coefs, lo, hi))
    return S, lbs, ubs, users


class VRng:
    """Controlled answers for numpy.random.randint / uniform.

    The k-th call of each kind takes the k-th queued answer of that kind (default answer once the queue is empty),
    so the seam does not depend on the order in which the sampler interleaves the two kinds of draws.
    numpy.random.seed keeps working (any other numpy draw stays reproducible)."""

    def __init__(self):
        self.queue = []
        self.consumed = []
        self.n_randint = None

    def install(self):
        import numpy as np

        self._orig = (np.random.randint, np.random.uniform)
        np.random.randint = self.randint
        np.random.uniform = self.uniform

    def uninstall(self):
        import numpy as np

        np.random.randint, np.random.uniform = self._orig

    def _next(self, kind, default):
        for i, ans in enumerate(self.queue):
            if ans[0] == kind:
                return self.queue.pop(i)
        return (kind, default)

    def randint(self, low, high=None, size=None, **kw):
        n = low if high is None else high - low
        base = 0 if high is None else low
        self.n_randint = n
        ans = self._next("r", 0)
        v = base + min(ans[1], n - 1)
        self.consumed.append(("r", v))
        if size is not None:
            import numpy as np

            return np.full(size, v)
        return v

    def uniform(self, a=0.0, b=1.0, size=None):
        ans = self._next("u", "mid")
        k = ans[1]
        v = {"mid": (a + b) / 2, "lo": a, "lo+": a + EPS * (b - a), "hi-": b - EPS * (b - a), "q3": a + 0.75 * (b - a)}[k]
        self.consumed.append(("u", k))
        if size is not None:
            import numpy as np

            return np.full(size, v)
        return v


def walk_state(s):
    return (s.prev.copy(), s.center.copy(), s.n_samples, s.retries)


def restore(s, st):
    s.prev, s.center, s.n_samples, s.retries = st[0].copy(), st[1].copy(), st[2], st[3]


def explore_sampler(mname, model, method, depth, dev_bound, stats):
    import numpy as np
    from cobra.sampling import ACHRSampler, OptGPSampler

    viol = []
    data = extract_data(model)
    rng = VRng()
    rng.install()
    try:
        with warnings.catch_warnings():
            warnings.simplefilter("ignore")
            if method == "achr":
                s = ACHRSampler(model, thinning=1, seed=1)
            else:
                s = OptGPSampler(model, processes=1, thinning=1, seed=1)
        nw = s.n_warmup
        ids = [r.id for r in model.reactions]

        def bad(check, path, detail, space):
            sg = {"sampler": method, "model": mname, "check": check, "space": space}
            if any(len(p) > 1 and p[1] == "lo" for p in path):
                # the random source answered with exactly the lower end of the requested interval (legal for a half-open
                # interval, of probability ~2^-53): recorded so that a finding about that corner stays separate
                sg["exact_low_end"] = True
            viol.append((sg,
                         {"model": mname, "method": method, "path": [list(p) for p in path]},
                         f"{mname}/{method} answers {path}\n{detail}"))

        def check_rows(df, path, space):
            if space == "flux":
                if list(df.columns) != ids:
                    bad("columns are not the model's reactions in order", path, str(list(df.columns)), space)
                    return
                rows = df.values
            else:
                names = [v.name for v in model.variables]
                if list(df.columns) != names:
                    bad("columns are not the solver variables in order", path, str(list(df.columns)), space)
                    return
                fwd = [names.index(r.id) for r in model.reactions]
                rev = [names.index(r.reverse_id) for r in model.reactions]
                if (df.values < -s.bounds_tol).any():
                    bad("negative solver variable", path, str(df.values), space)
                rows = df.values[:, fwd] - df.values[:, rev]
            val = s.validate(df.values)
            for row, code in zip(rows, val):
                if not np.isfinite(np.asarray(row, dtype=float)).all():
                    bad("sample is not finite", path, f"row {row} (validate says {code!r})", space)
                    continue
                ok, near = independent_check(data, row, s.feasibility_tol, s.bounds_tol)
                stats["points"] = stats.get("points", 0) + 1
                if not ok and near > 0.5 * min(s.feasibility_tol, s.bounds_tol):
                    bad("infeasible sample", path, f"row {row} (validate says {code!r})", space)
                elif (code == "v") != ok and near > 0.5 * min(s.feasibility_tol, s.bounds_tol) and space == "flux":
                    bad("validate() disagrees with the independent check", path, f"row {row}: validate {code!r}, independent {ok}", space)

        # DFS over answer sequences; one step = sample(1) with thinning 1
        if method == "achr":
            root = walk_state(s)
        else:
            root = (s.center.copy(), s.n_samples, s.retries)

        def run_path(path):
            """Execute the whole path from the root (OptGP restarts its chain on every call)."""
            if method == "achr":
                restore(s, root)
                out = []
                for k, (ri, uf) in enumerate(path):
                    rng.queue = [("r", ri), ("u", uf)]
                    rng.consumed = []
                    df = s.sample(1, fluxes=(k % 2 == 0))
                    out.append((df, "flux" if k % 2 == 0 else "variables"))
                return out
            s.center, s.n_samples, s.retries = root[0].copy(), root[1], root[2]
            q = [("r", path[0][0])]
            for ri, uf in path:
                q += [("r", ri), ("u", uf)]
            rng.queue = q
            rng.consumed = []
            df = s.sample(len(path), fluxes=True)
            return [(df, "flux")]

        answers = [(ri, uf) for ri in range(nw) for uf in UNIFORM_MENU]
        default = (0, "mid")
        count = 0
        for d in range(1, depth + 1):
            for path in itertools.product(answers, repeat=d):
                if d > 2 and sum(1 for a in path if a != default) > dev_bound:
                    continue
                if d < depth and method == "achr":
                    pass
                count += 1
                try:
                    for df, space in run_path(path):
                        check_rows(df, path, space)
                    stats["answers_consumed"] = stats.get("answers_consumed", 0) + len(rng.consumed)
                except RuntimeError as exc:
                    if "Cannot escape sampling region" in str(exc):
                        # documented refusal; with a deterministic answer source every retry repeats itself
                        stats["refused_cannot_escape"] = stats.get("refused_cannot_escape", 0) + 1
                        continue
                    bad("sampler raised " + type(exc).__name__, path, repr(exc), "flux")
                except Exception as exc:
                    bad("sampler raised " + type(exc).__name__, path, repr(exc), "flux")
        stats["paths"] = stats.get("paths", 0) + count
        # deliberately infeasible rows: validate must not accept them
        rng.uninstall()
        rng.install()
        badrows = np.array([[1e3] * len(ids), list(data[2] + 1.0)])
        codes = s.validate(badrows)
        if any(c == "v" for c in codes):
            bad("validate() accepts an infeasible point", (), str(codes), "flux")
    finally:
        rng.uninstall()
    return viol


def menus_task(mname, model, stats, procs_menu):
    """Finite menus with the real (seeded) random source."""
    import numpy as np
    from cobra.sampling import sample

    from .. import observe

    viol = []
    data = extract_data(model)
    ids = [r.id for r in model.reactions]
    before = observe.python_view(model), observe.lp_canonical(observe.raw_lp(model), ordered=True)
    for method in ("achr", "optgp"):
        for seed, n, thinning in itertools.product((0, 1, 42), (1, 3, 4), (1, 2, 5)):
            for p in (procs_menu if method == "optgp" else (1,)):
                if p > 1 and not (seed == 42 and thinning == 2):
                    continue
                stats["menu_calls"] = stats.get("menu_calls", 0) + 1
                case = {"model": mname, "menu": [method, seed, n, thinning, p]}

                def bad(check, detail):
                    viol.append(({"sampler": method, "model": mname, "check": check, "space": "flux", "processes": p}, case,
                                 f"{case}\n{detail}"))

                try:
                    with warnings.catch_warnings():
                        warnings.simplefilter("ignore")
                        a = sample(model, n, method=method, thinning=thinning, processes=p, seed=seed)
                        b = sample(model, n, method=method, thinning=thinning, processes=p, seed=seed)
                except Exception as exc:
                    bad("sample() raised " + type(exc).__name__, repr(exc))
                    continue
                want = n if method == "achr" else int(math.ceil(n / p)) * p
                if len(a) != want:
                    bad("row count", f"{len(a)} vs {want}")
                if list(a.columns) != ids:
                    bad("columns are not the model's reactions in order", str(list(a.columns)))
                if not np.array_equal(a.values, b.values):
                    bad("same seed gives different samples", "")
                for row in a.values:
                    ok, near = independent_check(data, row, 1e-6, 1e-6)
                    stats["points"] = stats.get("points", 0) + 1
                    if not ok and near > 5e-7:
                        bad("infeasible sample", f"row {row}")
                        break
    # sampler objects: repeated sample() calls (also with n not a multiple of the process count)
    from cobra.sampling import ACHRSampler, OptGPSampler

    for method, p, n in (("achr", 1, 3), ("optgp", 1, 3)) + tuple(("optgp", pp, 3) for pp in procs_menu if pp > 1):
        stats["menu_calls"] = stats.get("menu_calls", 0) + 1
        case = {"model": mname, "menu": [method, "object", n, 2, p]}
        try:
            with warnings.catch_warnings():
                warnings.simplefilter("ignore")
                s = ACHRSampler(model, thinning=2, seed=7) if method == "achr" else OptGPSampler(model, processes=p, thinning=2, seed=7)
                frames = [s.sample(n), s.sample(n), s.sample(n, fluxes=False)]
        except RuntimeError as exc:
            if "Cannot escape sampling region" in str(exc):
                viol.append(({"sampler": method, "model": mname, "check": "repeated sample() raised RuntimeError", "space": "flux",
                              "processes": p}, case, repr(exc)))
            continue
        except Exception as exc:
            viol.append(({"sampler": method, "model": mname, "check": "repeated sample() raised " + type(exc).__name__,
                          "space": "flux", "processes": p}, case, repr(exc)))
            continue
        names = [v.name for v in model.variables]
        fwd = [names.index(r.id) for r in model.reactions]
        rev = [names.index(r.reverse_id) for r in model.reactions]
        for k, df in enumerate(frames):
            rows = df.values if k < 2 else df.values[:, fwd] - df.values[:, rev]
            for row in rows:
                ok, near = independent_check(data, row, s.feasibility_tol, s.bounds_tol)
                stats["points"] = stats.get("points", 0) + 1
                if not ok and near > 0.5 * min(s.feasibility_tol, s.bounds_tol):
                    viol.append(({"sampler": method, "model": mname, "check": "infeasible sample in call %d" % (k + 1),
                                  "space": "flux" if k < 2 else "variables", "processes": p}, case, f"row {row}"))
                    break
    # two samplers alive at the same time, used out of construction order: each must behave as if it were alone
    other = dict(models())["forced" if mname.split("@")[0] != "forced" else "homogeneous"]
    for method in ("achr", "optgp"):
        stats["menu_calls"] = stats.get("menu_calls", 0) + 1
        case = {"model": mname, "menu": [method, "two_samplers", 3, 2, 1]}
        try:
            with warnings.catch_warnings():
                warnings.simplefilter("ignore")
                mk = (lambda mm, sd: ACHRSampler(mm, thinning=2, seed=sd)) if method == "achr" else (
                    lambda mm, sd: OptGPSampler(mm, processes=1, thinning=2, seed=sd))
                alone = mk(model, 11).sample(3)
                sa = mk(model, 11)
                sb = mk(other, 5)
                sb.sample(2)
                first = sa.sample(3)
        except Exception as exc:
            if "Cannot escape sampling region" not in str(exc):
                viol.append(({"sampler": method, "model": mname, "check": "two samplers: raised " + type(exc).__name__,
                              "space": "flux", "processes": 1}, case, repr(exc)))
            continue
        # (whether the numbers equal those of the sampler used alone is not judged: ACHR draws from numpy's global
        # stream, which the other sampler advances; what the property promises is that every sample is feasible for
        # the sampler's own model)
        if list(first.columns) != ids:
            viol.append(({"sampler": method, "model": mname, "check": "two samplers: columns are not the model's reactions",
                          "space": "flux", "processes": 1}, case, str(list(first.columns))))
            continue
        for row in first.values:
            ok, near = independent_check(data, row, sa.feasibility_tol, sa.bounds_tol)
            stats["points"] = stats.get("points", 0) + 1
            if not ok and near > 0.5 * min(sa.feasibility_tol, sa.bounds_tol):
                viol.append(({"sampler": method, "model": mname, "check": "two samplers: infeasible sample for the sampler's own model",
                              "space": "flux", "processes": 1}, case,
                             f"row {row}\nalone:\n{alone}\nwith another sampler built and used in between:\n{first}"))
                break
    after = observe.python_view(model), observe.lp_canonical(observe.raw_lp(model), ordered=True)
    if after != before:
        d = observe.diff(before[0], after[0])
        viol.append(({"sampler": "any", "model": mname, "check": "sampling modified the model", "space": "flux"},
                     {"model": mname, "menu": "all"}, "\n".join(d) or "solver problem differs"))
    return viol


def model_by_name(name):
    """'<model>' or '<model>@<origin>': the model reached by another public route (mc/origins.py)."""
    base, _, origin = name.partition("@")
    model = dict(models())[base]
    if origin:
        from .. import origins

        model = origins.derive(model, origin)
    return model


def run_task(payload):
    stats, violations = {}, []
    try:
        model = model_by_name(payload["model"])
    except Exception as exc:
        if type(exc).__name__ != "OriginUnavailable":
            raise
        return {"violations": [], "stats": {"origin_unavailable": 1}}
    if payload["kind"] == "dfs":
        violations = explore_sampler(payload["model"], model, payload["method"], payload["depth"], payload["dev"], stats)
    else:
        violations = menus_task(payload["model"], model, stats, payload["procs"])
    return {"violations": violations[:100], "stats": stats}


def replay(case):
    model = model_by_name(case["model"])
    if "menu" in case:
        v = menus_task(case["model"], model, {}, (1, 2, 3))
        return [{"sig": s, "detail": d} for s, c, d in v]
    path = [tuple(p) for p in case["path"]]
    v = explore_sampler(case["model"], model, case["method"], max(1, len(path)), 99, {})
    return [{"sig": s, "detail": d} for s, c, d in v if [tuple(p) for p in c["path"]] == path]


def explore(ctx):
    depth = 3 if ctx.tier == "quick" else 4
    dev = 2 if ctx.tier == "quick" else 3
    payloads = []
    for mname, _ in models():
        for method in ("achr", "optgp"):
            payloads.append({"kind": "dfs", "model": mname, "method": method, "depth": depth, "dev": dev})
        payloads.append({"kind": "menus", "model": mname, "procs": (1, 2) if ctx.tier == "quick" else (1, 2, 3)})
    # origins: the same models reached by another public route (copy, file formats, rolled-back context, ...)
    from .. import origins

    omodels = ("forced", "user_inequality") if ctx.tier == "quick" else [m for m, _ in models()]
    for mname in omodels:
        for o in origins.ORIGINS:
            payloads.append({"kind": "menus", "model": f"{mname}@{o}", "procs": (1, 2)})
            if o in ("copy", "pickle", "sbml", "restored", "in_context"):
                for method in ("achr", "optgp"):
                    payloads.append({"kind": "dfs", "model": f"{mname}@{o}", "method": method, "depth": 2, "dev": 2})
    stats = {}
    with ctx.pool(timeout=3000) as pool:
        for i, status, r0 in pool.imap(payloads):
            r = ctx.collect(status, r0)
            if r is None:
                if status in ("abort", "timeout"):
                    ctx.violation({"sampler": payloads[i].get("method", "menus"), "model": payloads[i]["model"],
                                   "check": "worker " + status}, payloads[i], status)
                continue
            for k, v in r["stats"].items():
                stats[k] = stats.get(k, 0) + v
    ctx.cov.update({
        "states": stats.get("points", 0), "transitions": stats.get("paths", 0) + stats.get("menu_calls", 0),
        "traces_validated_against_impl": stats.get("paths", 0) + stats.get("menu_calls", 0),
        "evaluations": stats.get("paths", 0) + stats.get("menu_calls", 0),
        "distinct_nontrivial": stats.get("paths", 0),
        "rule": "6 models (homogeneous with cycle, forced flux, fixed flux, user inequality, one-sided inequality with zero bound, user equality) x {ACHR, OptGP}: "
                "every answer sequence of the random source (all randint values x uniform menu {lo, lo+eps, mid, 3/4, hi-eps}) "
                "to depth 2 and depth %d with <=%d non-default answers, alternating reaction and variable space; every point "
                "checked against S v = 0, bounds and user constraints taken from the original model; finite menus seeds "
                "{0,1,42} x n {1,3,4} x thinning {1,2,5} x methods x processes with the real seeded source" % (depth, dev),
        "exhaustive": stats.get("answers_consumed", 0) > 0, "answer_paths": stats.get("paths", 0),
        "random_answers_consumed_by_the_samplers": stats.get("answers_consumed", 0),
        "points_checked": stats.get("points", 0),
        "menu_calls": stats.get("menu_calls", 0),
        "origins_pass": "models %s x %d origins (%s): finite menus from every origin, answer sequences to depth 2 from "
                        "copy/pickle/sbml/restored/in_context; route itself failed for %d" % (
                            list(omodels), len(origins.ORIGINS), ", ".join(origins.ORIGINS), stats.get("origin_unavailable", 0)),
    })
    ctx.sample({"model": "forced", "method": "achr", "answers": [[3, "hi"], [0, "lo+"], [5, "mid"]]})
    ctx.assumptions += ["uniform() is abstracted to a 5-point menu (end points adversarial, midpoint typical): a bounded "
                        "abstraction of a continuous random walk", "walks longer than the depth bound are not covered"]
