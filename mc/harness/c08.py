"""C08 - a gene rule is a Boolean function and its text form is faithful.

All and/or expression trees up to a leaf bound x spellings x awkward identifiers x all
knock-out subsets; the oracle is the generated tree itself (never parsed)."""
import copy
import itertools
import keyword
import pickle
import warnings

from .. import ref_gpr
from .c07 import _l, _t, shape_of, trees

PROPERTY = "C08"
LEVEL = "model_checking"

AWKWARD = ["1g", "123", "b0001", "if", "None", "True", "is.x", "a.b", "a-b", "a:b", "a/b", "a'b", 'a"b', "a=b",
           "AND1", "or2", "G_x", "x__46__y", "and_", "notg", "g.1-2:3"] + \
          [k for k in keyword.kwlist if k not in ("and", "or")]

STYLES = ["and/or", "AND/OR", "&|", "parens", "blanks"]


def render(tree, style):
    if style in ("and/or", "AND/OR", "&|"):
        return ref_gpr.render(tree, style)
    if style == "parens":
        def r(t):
            if isinstance(t, str):
                return "(%s)" % t
            return "(" + (" %s " % t[0]).join(r(x) for x in t[1:]) + ")"
        return "(" + r(tree) + ")"
    if style == "blanks":
        return "  " + ref_gpr.render(tree, "and/or").replace(" ", "   ").replace("(", "( ").replace(")", " )") + "  "
    raise AssertionError(style)


def family(tier):
    fam = []
    g4 = ["g1", "g2", "g3", "g4"]
    g3 = g4[:3]
    for n in (1, 2, 3):
        fam += list(trees(n, g4))
    fam += list(trees(4, g3 if tier == "quick" else g4))
    if tier != "quick":
        fam += [t for t in trees(5, ["g1", "g2"])]
    return fam


def substitute(tree, pos, new, counter=None):
    """Replace the pos-th leaf (left-to-right) by `new`."""
    counter = counter if counter is not None else [0]
    if isinstance(tree, str):
        i = counter[0]
        counter[0] += 1
        return new if i == pos else tree
    return (tree[0],) + tuple(substitute(t, pos, new, counter) for t in tree[1:])


def n_leaves(tree):
    return 1 if isinstance(tree, str) else sum(n_leaves(t) for t in tree[1:])


def table_of(gpr, genes):
    return [bool(gpr.eval(set(ko))) for ko in ref_gpr.subsets(genes)]


ROUTE = ["text"]

# rules in which the same sub-expression occurs under two different parents (a converter that shares nodes turns
# them into a graph, which in-place editing then visits twice)
SHARED = [
    ("and", ("or", ("and", "g1", "g2"), "g3"), ("or", ("and", "g1", "g2"), "g4")),
    ("or", ("and", ("or", "g1", "g2"), "g3"), ("and", ("or", "g1", "g2"), "g4")),
    ("and", ("or", ("and", "g1", "g2"), "g3"), ("or", ("and", "g2", "g1"), "g3", "g4")),
    ("or", ("and", ("or", "g1", "g2"), ("or", "g3", "g4")), ("and", ("or", "g1", "g2"), "g5")),
]


def check_tree(tree, styles, stats, with_model=True):
    from cobra import Metabolite, Model, Reaction
    from cobra.core.gene import GPR
    from cobra.manipulation import remove_genes

    out = []
    genes = sorted(ref_gpr.genes(tree))
    want = ref_gpr.table(tree)
    for style in styles:
        ROUTE[0] = "text"
        text = render(tree, style)
        case = {"tree": _l(tree), "style": style}
        stats["evaluations"] = stats.get("evaluations", 0) + 1

        def bad(check, detail, **extra):
            s = {"check": check, "style": style, "shape": shape_of(tree) if n_leaves(tree) <= 3 else "leaves=%d" % n_leaves(tree),
                 "awkward": any(g in AWKWARD for g in genes)}
            s.update(extra)
            if ROUTE[0] != "text":
                s["route"] = ROUTE[0]
            out.append((s, dict(case), f"text {text!r} tree {tree}\n{detail}"))

        try:
            with warnings.catch_warnings():
                warnings.simplefilter("ignore")
                gpr = GPR.from_string(text)
        except Exception as exc:
            bad("from_string raised " + type(exc).__name__, repr(exc))
            continue
        try:
            if sorted(gpr.genes) != genes:
                bad("genes differ", f"{sorted(gpr.genes)} vs {genes}")
                continue
            if table_of(gpr, genes) != want:
                bad("truth table differs", f"{table_of(gpr, genes)} vs {want}")
                continue
            # the other documented shapes of the knock-out argument: one gene id as a string, a list, a tuple, a frozenset
            for g in genes:
                w = bool(gpr.eval({g}))
                for shape, arg in (("str", g), ("list", [g]), ("tuple", (g,)), ("frozenset", frozenset([g]))):
                    if bool(gpr.eval(arg)) != w:
                        bad("eval with the knock-out given as %s differs from the set form" % shape, f"gene {g!r}")
                        break
            # text round trip
            for fn in ("to_string", "str"):
                t2 = gpr.to_string() if fn == "to_string" else str(gpr)
                with warnings.catch_warnings():
                    warnings.simplefilter("ignore")
                    g2 = GPR.from_string(t2)
                if sorted(g2.genes) != genes or table_of(g2, genes) != want:
                    bad(f"{fn}() re-parsed differs", f"{t2!r}: genes {sorted(g2.genes)} table {table_of(g2, genes)}")
                elif not (g2 == gpr):
                    bad(f"{fn}() re-parsed does not compare equal", t2)
            # copies
            for name, fn in (("copy()", lambda g: g.copy()), ("copy.copy", copy.copy), ("deepcopy", copy.deepcopy),
                             ("GPR(rule)", lambda g: GPR(g))):
                g2 = fn(gpr)
                if sorted(g2.genes) != genes or table_of(g2, genes) != want or not (g2 == gpr):
                    bad(f"{name} differs", "")
            # symbolic
            g2 = GPR.from_symbolic(gpr.as_symbolic())
            if sorted(g2.genes) != genes or table_of(g2, genes) != want:
                bad("symbolic round trip differs", f"{g2.to_string()!r}")
            elif not (g2 == gpr):
                bad("symbolic round trip does not compare equal", f"{g2.to_string()!r}")
            # reaction carrying the rule: setter, pickle, copy
            r = Reaction("r")
            with warnings.catch_warnings():
                warnings.simplefilter("ignore")
                r.gene_reaction_rule = text
            if sorted(g.id for g in r.genes) != genes:
                bad("reaction.genes differ from the rule's genes", str(sorted(g.id for g in r.genes)))
            for name, fn in (("pickle", lambda x: pickle.loads(pickle.dumps(x))), ("Reaction.copy", lambda x: x.copy())):
                with warnings.catch_warnings():
                    warnings.simplefilter("ignore")
                    r2 = fn(r)
                if sorted(r2.gpr.genes) != genes or table_of(r2.gpr, genes) != want or not (r2.gpr == r.gpr):
                    bad(f"{name} of a reaction changes the rule", r2.gene_reaction_rule)
                if sorted(g.id for g in r2.genes) != genes:
                    bad(f"{name} of a reaction changes its genes", str(sorted(g.id for g in r2.genes)))
        except Exception as exc:
            bad("raised " + type(exc).__name__, repr(exc))
            continue
        # remove_genes on a one-reaction model
        if with_model and style in ("and/or", "&|"):
            for k in range(1, len(genes) + 1):
                for R in itertools.combinations(genes, k):
                    variants = [(False, False, "text"), (True, False, "text"), (False, True, "text")]
                    if n_leaves(tree) >= 5:
                        # the rule object reached the reaction through a conversion instead of the parser
                        variants += [(False, False, "symbolic"), (False, False, "copy")]
                    if n_leaves(tree) >= 3:
                        # ... or through the public constructor from another rule, which stays in use elsewhere
                        variants += [(False, False, "constructor")]
                    for rr, observed, route in variants:
                        ROUTE[0] = route
                        stats["evaluations"] += 1
                        m = Model("m")
                        rx = Reaction("r1", lower_bound=0, upper_bound=10)
                        rx.add_metabolites({Metabolite("A", compartment="c"): -1})
                        # a preceding reaction that depends on one gene only (it is removed first
                        # whenever that gene is removed together with its reactions)
                        r0 = Reaction("r0", lower_bound=0, upper_bound=10)
                        r0.add_metabolites({Metabolite("A", compartment="c"): 1})
                        with warnings.catch_warnings():
                            warnings.simplefilter("ignore")
                            if route == "text":
                                rx.gene_reaction_rule = text
                            source = None   # the rule object that the reaction's rule was derived from
                            if route == "text":
                                pass
                            elif route == "symbolic":
                                source = GPR.from_string(text)
                                rx.gpr = GPR.from_symbolic(source.as_symbolic())
                            elif route == "constructor":
                                source = GPR.from_string(text)
                                rx.gpr = GPR(source)
                            else:
                                source = GPR.from_string(text)
                                rx.gpr = copy.deepcopy(source.copy())
                            r0.gene_reaction_rule = genes[0]
                            m.add_reactions([r0, rx])
                            if observed:
                                # the rule has been compared / converted before the removal (derived forms exist)
                                rx.gpr == GPR.from_string(text)
                                rx.gpr.as_symbolic()
                                str(rx.gpr)
                            try:
                                remove_genes(m, list(R), remove_reactions=rr)
                            except Exception as exc:
                                bad("remove_genes raised " + type(exc).__name__, repr(exc), remove_reactions=rr)
                                continue
                        if source is not None:
                            # the rule it was derived from is a Boolean function of its own: editing the model's rule in
                            # place leaves it alone
                            if sorted(source.genes) != genes or table_of(source, genes) != want:
                                bad("remove_genes changed the rule that the reaction's rule had been derived from",
                                    f"R={R}: source now {source.to_string()!r} genes {sorted(source.genes)}", remove_reactions=rr)
                        still = ref_gpr.evaluate(tree, set(R))
                        left = sorted(g.id for g in m.genes)
                        if left != sorted(set(genes) - set(R)):
                            bad("model genes after remove_genes", f"R={R}: {left}", remove_reactions=rr)
                        if ("r0" in m.reactions) != (not (rr and genes[0] in R)):
                            bad("single-gene reaction kept/removed wrongly", f"R={R}", remove_reactions=rr)
                        if not still:
                            if rr and "r1" in m.reactions:
                                bad("reaction not removed although its rule became false", f"R={R}", remove_reactions=rr)
                            continue
                        if "r1" not in m.reactions:
                            bad("reaction removed although it can still be catalysed", f"R={R}", remove_reactions=rr)
                            continue
                        new = m.reactions.r1.gpr
                        rest = sorted(set(genes) - set(R))
                        if not set(new.genes) <= set(rest):
                            bad("rule still mentions removed genes", f"R={R}: {new.to_string()!r}", remove_reactions=rr)
                            continue
                        for ko in ref_gpr.subsets(rest):
                            if bool(new.eval(set(ko))) != ref_gpr.evaluate(tree, set(ko) | set(R)):
                                bad("rule after remove_genes not equivalent to the old rule with the genes absent",
                                    f"R={R}: new rule {new.to_string()!r}, differs when {ko} are knocked out",
                                    remove_reactions=rr)
                                break
                        if sorted(g.id for g in m.reactions.r1.genes) != sorted(new.genes):
                            bad("reaction.genes differ from the new rule's genes", f"R={R}", remove_reactions=rr)
                        # every derived form of the edited rule describes the edited rule
                        tnew = table_of(new, rest)
                        with warnings.catch_warnings():
                            warnings.simplefilter("ignore")
                            forms = [] if (rr and not observed) else [("from_symbolic(as_symbolic())", GPR.from_symbolic(new.as_symbolic())),
                                     ("from_string(to_string())", GPR.from_string(new.to_string())),
                                     ("copy()", new.copy())]
                        for fname, g2 in (forms if (observed or not rr) else ()):
                            if not set(g2.genes) <= set(rest) or table_of(g2, rest) != tnew:
                                bad("after remove_genes, %s differs from the rule" % fname,
                                    f"R={R}: rule {new.to_string()!r}, form {g2.to_string()!r}", remove_reactions=rr, observed=observed)
                            elif not (g2 == new):
                                bad("after remove_genes, %s does not compare equal to the rule" % fname,
                                    f"R={R}: rule {new.to_string()!r}", remove_reactions=rr, observed=observed)
    ROUTE[0] = "text"
    return out


def check_pairs(trees_small, stats):
    """g1 == g2  =>  equal truth tables (over the union of genes)."""
    from cobra.core.gene import GPR

    out = []
    parsed = []
    for t in trees_small:
        with warnings.catch_warnings():
            warnings.simplefilter("ignore")
            parsed.append((t, GPR.from_string(ref_gpr.render(t))))
    for (t1, a), (t2, b) in itertools.combinations(parsed, 2):
        stats["pairs"] = stats.get("pairs", 0) + 1
        try:
            eq = a == b
        except Exception as exc:
            out.append(({"check": "== raised " + type(exc).__name__}, {"pair": [_l(t1), _l(t2)]}, repr(exc)))
            continue
        genes = sorted(ref_gpr.genes(t1) | ref_gpr.genes(t2))
        same = ref_gpr.table(t1, genes) == ref_gpr.table(t2, genes)
        if eq and not same:
            out.append(({"check": "rules compare equal but are not logically equivalent"},
                        {"pair": [_l(t1), _l(t2)]}, f"{ref_gpr.render(t1)!r} == {ref_gpr.render(t2)!r}"))
    return out


def run_task(payload):
    stats, violations = {}, []
    if payload["kind"] == "pairs":
        violations = check_pairs([_t(t) for t in payload["trees"]], stats)
        return {"violations": violations[:300], "stats": stats}
    for tree in payload["trees"]:
        tree = _t(tree)
        stats["trees"] = stats.get("trees", 0) + 1
        violations.extend(check_tree(tree, payload["styles"], stats, payload.get("with_model", True)))
    return {"violations": violations[:300], "stats": stats}


def replay(case):
    if "pair" in case:
        return [{"sig": s, "detail": d} for s, c, d in check_pairs([_t(t) for t in case["pair"]], {})]
    out = check_tree(_t(case["tree"]), [case["style"]], {})
    return [{"sig": s, "detail": d} for s, c, d in out]


def explore(ctx):
    fam = family(ctx.tier)
    # awkward identifiers: every leaf position x every awkward id, <= 1 per rule (thorough: 2)
    small = [t for t in fam if n_leaves(t) <= (3 if ctx.tier == "quick" else 3)]
    small3 = [t for t in small if set(ref_gpr.genes(t)) <= {"g1", "g2", "g3"}]
    awk = []
    for t in small3:
        for pos in range(n_leaves(t)):
            for a in AWKWARD:
                awk.append(substitute(t, pos, a))
    if ctx.thorough:
        for t in [t for t in small3 if n_leaves(t) == 2]:
            for a, b in itertools.product(AWKWARD, repeat=2):
                if a != b:
                    awk.append(substitute(substitute(t, 0, a), 1, b))
    seen = set()
    awk = [t for t in awk if not (t in seen or seen.add(t))]
    payloads = []
    chunk = 40
    off = ctx.seed % len(fam)
    fam = fam[off:] + fam[:off]
    for i in range(0, len(fam), chunk):
        payloads.append({"kind": "trees", "trees": fam[i:i + chunk], "styles": STYLES})
    for i in range(0, len(awk), chunk * 4):
        payloads.append({"kind": "trees", "trees": awk[i:i + chunk * 4], "styles": ["and/or", "AND/OR", "&|"],
                         "with_model": True})
    payloads.append({"kind": "trees", "trees": SHARED, "styles": ["and/or"], "with_model": True})
    pair_fam = [t for t in fam if n_leaves(t) <= 2] + [t for t in small3 if n_leaves(t) == 3][:: (1 if ctx.thorough else 3)]
    for i in range(0, len(pair_fam), 60):
        # all pairs inside overlapping windows + cross pairs with the first block
        block = pair_fam[i:i + 60]
        payloads.append({"kind": "pairs", "trees": pair_fam[:50] + block})
    stats = {}
    with ctx.pool(timeout=3000) as pool:
        for i, status, r0 in pool.imap(payloads):
            r = ctx.collect(status, r0)
            if r is None:
                if status in ("abort", "timeout"):
                    ctx.violation({"check": "worker " + status}, {"payload": i}, status)
                continue
            for k, v in r["stats"].items():
                stats[k] = stats.get(k, 0) + v
    ctx.cov.update({
        "states": stats.get("trees", 0), "transitions": stats.get("evaluations", 0) + stats.get("pairs", 0),
        "traces_validated_against_impl": stats.get("evaluations", 0) + stats.get("pairs", 0),
        "evaluations": stats.get("evaluations", 0) + stats.get("pairs", 0),
        "distinct_nontrivial": len([t for t in fam if not isinstance(t, str)]) + len(awk),
        "rule": "all and/or trees with <=3 leaves over g1..g4 and 4 leaves over %s x 5 spellings; every leaf position x %d "
                "awkward identifiers (keywords, leading digits, . - : / ' \" =) x 3 spellings; remove_genes for every subset "
                "and both modes on a one-reaction model; == implies equivalence over %d rules pairwise; non-trivial = not "
                "a single plain gene" % ("g1..g3" if ctx.tier == "quick" else "g1..g4 (+5 leaves over g1,g2)",
                                         len(AWKWARD), len(pair_fam)),
        "exhaustive": True, "trees": len(fam), "awkward_trees": len(awk), "pairs": stats.get("pairs", 0),
    })
    ctx.sample({"tree": _l(fam[len(fam) // 2]), "text": ref_gpr.render(fam[len(fam) // 2])})
    ctx.sample({"tree": _l(awk[len(awk) // 3]), "text": ref_gpr.render(awk[len(awk) // 3])})
    ctx.assumptions += ["& / | never mixed with and/or without full parentheses (precedence undefined by the property)",
                        "backslash is outside the property's identifier list"]
