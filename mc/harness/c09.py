"""C09 - pFBA, linear MOMA and ROOM solve their documented secondary problems optimally.

Family F (feasible members, finite bounds) x objective forms x fractions x reference
solutions x knock-out states; oracle = exact LP / exhaustive binary enumeration."""
import itertools
import warnings
from fractions import Fraction as F

from .. import exactlp, families, oracles
from ..exactlp import OPT, fr, solve
from .c04 import _j, _u

PROPERTY = "C09"
LEVEL = "model_checking"
TOL = 1e-6

MENU_Q = [(0, 10), (-10, 10), (0, 0), (2, 10), (-10, -2)]
MENU_T = [(0, 10), (-10, 10), (0, 0), (2, 10), (-10, -2), (-10, 0), (3, 3), (0, 1000)]


def params(tier):
    if tier == "quick":
        return dict(nm=3, nr=3, K=(-1, 0, 1), d=1, menu=MENU_Q)
    return dict(nm=3, nr=3, K=(-1, 0, 1), d=1, menu=MENU_T)


def thorough_passes():
    return [(dict(nm=3, nr=3, K=(-1, 0, 1), d=1, menu=MENU_T), None),
            (dict(nm=3, nr=4, K=(-1, 0, 1), d=1, menu=[(-10, 0)]), lambda n: len(n) == 4),
            (dict(nm=3, nr=3, K=(-1, 0, 1, 2), d=0, menu=MENU_Q), lambda n: any(abs(x) == 2 for c in n for x in c))]


def room_oracle(fba, ref, closed, delta, epsilon):
    """Minimal number of reactions allowed to leave the band (exhaustive subsets)."""
    n = len(fba.rxns)
    base = fba.lp(closed)
    band = []
    for rid, _, lb, ub in fba.rxns:
        w = fr(ref[rid])
        band.append((w - fr(delta) * abs(w) - fr(epsilon), w + fr(delta) * abs(w) + fr(epsilon)))
    for k in range(n + 1):
        for Y in itertools.combinations(range(n), k):
            lp = base.copy()
            for j in range(n):
                if j in Y:
                    continue
                lo, hi = band[j]
                lp.lb[j] = lo if lp.lb[j] is None or lo > lp.lb[j] else lp.lb[j]
                lp.ub[j] = hi if lp.ub[j] is None or hi < lp.ub[j] else lp.ub[j]
            ok, _ = exactlp.feasible(lp)
            if ok:
                return k, band
    return None, band


def linear_room_oracle(fba, ref, closed):
    lp = fba.lp(closed)
    ys = []
    for j, (rid, _, lb, ub) in enumerate(fba.rxns):
        w = fr(ref[rid])
        lbj, ubj = lp.lb[j], lp.ub[j]
        y = lp.var(0, 1, "y_" + rid)
        ys.append(y)
        # documented constraints use the reaction's bounds at call time (the knocked-out bounds)
        lp.row({j: 1, y: -(ubj - w)}, None, w)
        lp.row({j: 1, y: -(lbj - w)}, w, None)
    st, val, _ = solve(lp, {y: 1 for y in ys}, "min")
    return st, val


def check_model(net, bounds, P, stats, rich=False, origin=None):
    import numpy as np
    from cobra.flux_analysis import moma, pfba, room
    from cobra.flux_analysis.parsimonious import optimize_minimal_flux

    mets, rxns = families.as_data(net, bounds)
    ids = [r[0] for r in rxns]
    base = exactlp.FBA(mets, rxns)
    ok, _ = exactlp.feasible(base.lp())
    if not ok:
        return []
    out = []
    S = np.array([[r[1].get(m, 0) for r in rxns] for m in mets], dtype=float)
    objs = [({ids[0]: 1}, "max")]
    if len(ids) > 1:
        objs.append(({ids[-1]: 1}, "max"))
    if rich and len(ids) > 1:
        objs.append(({ids[0]: 1, ids[-1]: -2}, "max"))
    pfba_only = []
    if len(ids) > 1:
        # objectives with a negative coefficient (the minimal-flux state may have a negative objective value, so that
        # fraction 0 is a real constraint); outside the rich tier they are run through the pFBA part only
        pfba_only = [o for o in (({ids[0]: 1, ids[-1]: -2}, "max"), ({ids[0]: -1, ids[-1]: 2}, "max")) if o not in objs]
        # minimising models (fraction 1 only: the property restricts fractions < 1 to optima >= 0 when maximising)
        pfba_only += [({ids[0]: 1}, "min"), ({ids[-1]: 1, ids[0]: 2}, "min")]
    for obj, direction in objs + pfba_only:
        only_pfba = (obj, direction) in pfba_only
        fba = exactlp.FBA(mets, rxns, obj, direction)
        st, z, _ = fba.optimum()
        if st != OPT or (z < 0 and direction == "max"):
            continue
        model = families.build_model(mets, rxns)
        model.objective = {model.reactions.get_by_id(r): c for r, c in obj.items()}
        model.objective_direction = direction
        if origin:
            # the same model reached by another public route (mc/origins.py)
            from .. import origins

            try:
                model = origins.derive(model, origin)
            except origins.OriginUnavailable:
                stats["origin_unavailable"] = stats.get("origin_unavailable", 0) + 1
                continue
        c = np.array([obj.get(r, 0) for r in ids], dtype=float)

        def mk(method, **kw):
            case = {"net": [list(x) for x in net], "bounds": [[_j(a), _j(b)] for a, b in bounds],
                    "objective": obj, "direction": direction, "method": method}
            if origin:
                case["origin"] = origin
            case.update(kw)
            return case

        def bad(case, check, detail, **extra):
            s = {"method": case["method"], "check": check}
            if origin:
                s["origin"] = origin
            s.update(extra)
            out.append((s, case, f"{detail}\nmodel: {rxns}\ncase: {case}"))

        def feasible_flux(v, closed, lbs, ubs):
            if np.max(np.abs(S @ v), initial=0) > TOL * (1 + np.abs(S).sum()):
                return "steady state violated"
            if np.any(v < lbs - TOL) or np.any(v > ubs + TOL):
                return "bounds violated"
            return None

        lbs0 = np.array([r[2] for r in rxns], dtype=float)
        ubs0 = np.array([r[3] for r in rxns], dtype=float)
        # ---- pFBA ----------------------------------------------------------------------
        for frac in ((1.0, 0.5, 0.0) if direction == "max" else (1.0,)):
            # (the forms ending in _alias go through the deprecated entry point optimize_minimal_flux, by keyword)
            for form in ((("model",), ("dict",), ("subset",), ("dict_alias",), ("subset_alias",)) if frac == 1.0
                         else (("model",), ("model_alias",)) if frac == 0.5 else (("model",),)):
                case = mk("pfba", fraction=frac, form=form[0])
                call = optimize_minimal_flux if form[0].endswith("_alias") else pfba
                form = (form[0].replace("_alias", ""),)
                stT, T, _ = oracles.min_total_flux(fba, frac)
                stats["evaluations"] = stats.get("evaluations", 0) + 1
                try:
                    with warnings.catch_warnings():
                        warnings.simplefilter("ignore")
                        if form[0] == "model":
                            sol = call(model, fraction_of_optimum=frac)
                        elif form[0] == "dict":
                            sol = call(model, fraction_of_optimum=frac,
                                       objective={model.reactions.get_by_id(r): cc for r, cc in obj.items()})
                        else:
                            sol = call(model, fraction_of_optimum=frac, reactions=[model.reactions.get_by_id(ids[-1])])
                except Exception as exc:
                    bad(case, "raised on a feasible model", repr(exc))
                    continue
                if stT != OPT:
                    bad(case, "returned but the exact secondary problem has no optimum", stT)
                    continue
                Tf = float(T)
                if Tf != 0:
                    stats["nontrivial"] = stats.get("nontrivial", 0) + 1
                if abs(sol.objective_value - Tf) > TOL * max(1, Tf):
                    bad(case, "objective value is not the minimal total flux", f"{sol.objective_value} vs {T}")
                if form[0] == "subset":
                    if list(sol.fluxes.index) != [ids[-1]]:
                        bad(case, "fluxes returned for other reactions than requested", str(list(sol.fluxes.index)))
                    continue
                v = np.array([sol.fluxes[r] for r in ids])
                pr = feasible_flux(v, (), lbs0, ubs0)
                if pr:
                    bad(case, pr, str(v))
                if abs(np.abs(v).sum() - Tf) > TOL * max(1, Tf):
                    bad(case, "total flux of the returned distribution is not minimal", f"{np.abs(v).sum()} vs {T}; v={v}")
                if direction == "max" and float(c @ v) < frac * float(z) - TOL * max(1, abs(float(z))):
                    bad(case, "objective below the requested fraction of the optimum", f"{c @ v} vs {frac}*{z}")
                if direction == "min" and float(c @ v) > frac * float(z) + TOL * max(1, abs(float(z))):
                    bad(case, "objective beyond the requested fraction of the optimum", f"{c @ v} vs {frac}*{z} (minimising)")
        # ---- pFBA with an explicit solver objective that is not a combination of net fluxes ------------------
        if len(ids) > 1 and not only_pfba:
            out.extend(check_pfba_expression(net, bounds, mets, rxns, ids, obj, model, stats, S, lbs0, ubs0))
        if only_pfba:
            continue
        # ---- references ------------------------------------------------------------------
        with warnings.catch_warnings():
            warnings.simplefilter("ignore")
            ref_fba = model.optimize()
            ref_pfba = pfba(model)
        from cobra.core import Solution

        # the same reference listed in another reaction order (e.g. computed on an equivalent model)
        ref_rev = Solution(ref_fba.objective_value, ref_fba.status, ref_fba.fluxes[::-1],
                           ref_fba.reduced_costs[::-1], ref_fba.shadow_prices[::-1])
        refs = [("fba", ref_fba), ("pfba", ref_pfba), ("default", None), ("fba_reordered", ref_rev)]
        kos = [None] + ids
        for ko in kos:
            closed = (ko,) if ko else ()
            lbs, ubs = lbs0.copy(), ubs0.copy()
            if ko:
                lbs[ids.index(ko)] = ubs[ids.index(ko)] = 0
            okk, _ = exactlp.feasible(fba.lp(closed))
            for refname, ref in refs:
                for method in ("moma", "room", "room_linear"):
                    if method != "moma" and refname in ("pfba", "fba_reordered") and not rich:
                        continue
                    case = mk(method, ko=ko, ref=refname)
                    stats["evaluations"] = stats.get("evaluations", 0) + 1
                    try:
                        with model:
                            if ko:
                                model.reactions.get_by_id(ko).knock_out()
                            with warnings.catch_warnings():
                                warnings.simplefilter("ignore")
                                if ref is None:
                                    refsol = pfba(model) if okk else None
                                else:
                                    refsol = ref
                                if method == "moma":
                                    sol = moma(model, solution=ref, linear=True)
                                elif method == "room":
                                    sol = room(model, solution=ref, linear=False)
                                else:
                                    sol = room(model, solution=ref, linear=True)
                    except Exception as exc:
                        if not okk:
                            continue
                        bad(case, "raised on a feasible model", repr(exc), exc=type(exc).__name__)
                        continue
                    if not okk:
                        if sol.status == "optimal":
                            bad(case, "optimal although the knocked-out model is infeasible", "")
                        continue
                    if sol.status != "optimal":
                        bad(case, "status not optimal on a feasible model", sol.status)
                        continue
                    refd = {r: float(refsol.fluxes[r]) for r in ids}
                    v = np.array([sol.fluxes[r] for r in ids])
                    pr = feasible_flux(v, closed, lbs, ubs)
                    if pr:
                        bad(case, pr, str(v))
                        continue
                    w = np.array([refd[r] for r in ids])
                    if method == "moma":
                        stD, D, _, _ = oracles.min_distance(fba, refd, closed)
                        Df = float(D)
                        if Df != 0:
                            stats["nontrivial"] = stats.get("nontrivial", 0) + 1
                        dist = np.abs(v - w).sum()
                        if abs(dist - Df) > TOL * max(1, Df):
                            bad(case, "distance to the reference is not minimal", f"{dist} vs {D}; v={v} ref={w}")
                        if abs(sol.objective_value - Df) > TOL * max(1, Df):
                            bad(case, "objective value is not the minimal distance", f"{sol.objective_value} vs {D}")
                    elif method == "room":
                        kmin, band = room_oracle(fba, refd, closed, 0.03, 1e-3)
                        outside = sum(1 for j in range(len(ids))
                                      if v[j] < float(band[j][0]) - 1e-7 or v[j] > float(band[j][1]) + 1e-7)
                        if kmin:
                            stats["nontrivial"] = stats.get("nontrivial", 0) + 1
                        if kmin is None:
                            bad(case, "oracle found no feasible assignment", "")
                        elif outside != kmin or abs(sol.objective_value - kmin) > 1e-6:
                            bad(case, "number of fluxes leaving the band is not minimal",
                                f"outside={outside} reported={sol.objective_value} minimal={kmin}; v={v} ref={w}")
                    else:
                        stL, L = linear_room_oracle(fba, refd, closed)
                        if stL != OPT:
                            bad(case, "oracle: relaxed problem has no optimum", stL)
                        elif abs(sol.objective_value - float(L)) > TOL * max(1, float(L)):
                            bad(case, "relaxed objective is not minimal", f"{sol.objective_value} vs {L}; v={v} ref={w}")
                        elif float(L) != 0:
                            stats["nontrivial"] = stats.get("nontrivial", 0) + 1
    return out


def check_pfba_expression(net, bounds, mets, rxns, ids, obj, model, stats, S, lbs0, ubs0):
    """pfba(model, objective=<optlang Objective>) where the objective is the model's first objective reaction minus
    half the *forward variable* of the last reaction.  Exact oracle: the same network with the last reaction split
    into its forward and reverse halves (bounds as cobra derives them), objective on the forward half."""
    import numpy as np
    from cobra.flux_analysis import pfba

    out = []
    first = next(iter(obj))
    last = ids[-1] if ids[-1] != first else ids[0]
    rid, st, lb, ub = [r for r in rxns if r[0] == last][0]
    split = [r for r in rxns if r[0] != last]
    split.append((last + "_f", dict(st), max(lb, 0), max(ub, 0)))
    split.append((last + "_r", {m: -c for m, c in st.items()}, max(-ub, 0), max(-lb, 0)))
    obj2 = {first: 1, last + "_f": F(-1, 2)}
    fba2 = exactlp.FBA(mets, split, obj2, "max")
    st2, z2, _ = fba2.optimum()
    if st2 != OPT or z2 < 0:
        return out
    for frac in (1.0, 0.5, 0.0):
        case = {"net": [list(x) for x in net], "bounds": [[_j(a), _j(b)] for a, b in bounds], "objective": obj,
                "direction": "max", "method": "pfba", "fraction": frac, "form": "expression"}
        stats["evaluations"] = stats.get("evaluations", 0) + 1

        def bad(check, detail):
            out.append(({"method": "pfba", "check": check, "form": "expression"}, case,
                        f"{detail}\nobjective {first} - 0.5*forward({last})\nmodel: {rxns}\ncase: {case}"))

        stT, T, _ = oracles.min_total_flux(fba2, frac)
        try:
            with warnings.catch_warnings():
                warnings.simplefilter("ignore")
                expr = model.reactions.get_by_id(first).flux_expression - 0.5 * model.reactions.get_by_id(last).forward_variable
                sol = pfba(model, fraction_of_optimum=frac, objective=model.problem.Objective(expr, direction="max"))
        except Exception as exc:
            bad("raised on a feasible model", repr(exc))
            continue
        if stT != OPT:
            bad("returned but the exact secondary problem has no optimum", stT)
            continue
        Tf = float(T)
        if Tf != 0:
            stats["nontrivial"] = stats.get("nontrivial", 0) + 1
        if abs(sol.objective_value - Tf) > TOL * max(1, Tf):
            bad("objective value is not the minimal total flux", f"{sol.objective_value} vs {T}")
        v = np.array([sol.fluxes[r] for r in ids])
        if np.max(np.abs(S @ v), initial=0) > TOL * (1 + np.abs(S).sum()) or np.any(v < lbs0 - TOL) or np.any(v > ubs0 + TOL):
            bad("steady state or bounds violated", str(v))
        if abs(np.abs(v).sum() - Tf) > TOL * max(1, Tf):
            bad("total flux of the returned distribution is not minimal", f"{np.abs(v).sum()} vs {T}; v={v}")
        val = v[ids.index(first)] - 0.5 * max(v[ids.index(last)], 0.0)
        if val < frac * float(z2) - TOL * max(1, abs(float(z2))):
            bad("objective below the requested fraction of the optimum", f"{val} vs {frac}*{z2}; v={v}")
    return out


def check_fraction0(net, bounds, stats):
    """fraction_of_optimum = 0 is a real constraint (objective >= 0) whenever the flux-minimal state of the model has
    a negative objective value: every objective r_i - r_j of a 4-reaction member for which the exact oracle says the
    constraint is binding is run through pfba(model, fraction_of_optimum=0)."""
    import numpy as np
    from cobra.flux_analysis import pfba

    mets, rxns = families.as_data(net, bounds)
    ids = [r[0] for r in rxns]
    free = exactlp.FBA(mets, rxns, {}, "max")
    ok, _ = exactlp.feasible(free.lp())
    if not ok:
        return []
    st0, T0, _ = oracles.min_total_flux(free, 1)
    out = []
    model = None
    for ri in ids:
        for rj in ids:
            if ri == rj:
                continue
            obj = {ri: 1, rj: -1}
            fba = exactlp.FBA(mets, rxns, obj, "max")
            st, z, _ = fba.optimum()
            if st != OPT or z < 0:
                continue
            stT, T, _ = oracles.min_total_flux(fba, 0)
            if stT != OPT or st0 != OPT or T <= T0:
                continue    # not binding: covered by the main pass
            stats["evaluations"] = stats.get("evaluations", 0) + 1
            stats["nontrivial"] = stats.get("nontrivial", 0) + 1
            case = {"net": [list(x) for x in net], "bounds": [[_j(a), _j(b)] for a, b in bounds], "objective": obj,
                    "direction": "max", "method": "pfba", "fraction": 0.0, "form": "binding_zero"}
            if model is None:
                model = families.build_model(mets, rxns)
            model.objective = {model.reactions.get_by_id(r): c for r, c in obj.items()}
            model.objective_direction = "max"
            try:
                with warnings.catch_warnings():
                    warnings.simplefilter("ignore")
                    sol = pfba(model, fraction_of_optimum=0.0)
            except Exception as exc:
                out.append(({"method": "pfba", "check": "raised on a feasible model", "form": "binding_zero"}, case, repr(exc)))
                continue
            v = np.array([sol.fluxes[r] for r in ids])
            val = v[ids.index(ri)] - v[ids.index(rj)]
            if val < -TOL:
                out.append(({"method": "pfba", "check": "objective below the requested fraction of the optimum",
                             "form": "binding_zero"}, case, f"objective {val} < 0 = 0 * {z}; v={v}\nmodel: {rxns}"))
            if abs(sol.objective_value - float(T)) > TOL * max(1, float(T)):
                out.append(({"method": "pfba", "check": "objective value is not the minimal total flux",
                             "form": "binding_zero"}, case, f"{sol.objective_value} vs {T} (unconstrained minimum {T0})\nmodel: {rxns}"))
    return out


def run_task(payload):
    P = payload["params"]
    stats, violations = {}, []
    if payload.get("fraction0"):
        for net in payload["nets"]:
            net = tuple(tuple(c) for c in net)
            for bounds in families.bound_assignments(net, P["d"], P["menu"]):
                stats["models_fraction0"] = stats.get("models_fraction0", 0) + 1
                violations.extend(check_fraction0(net, bounds, stats))
        return {"violations": violations[:300], "stats": stats}
    for net in payload["nets"]:
        net = tuple(tuple(c) for c in net)
        for bounds in families.bound_assignments(net, P["d"], P["menu"]):
            if payload.get("origins"):
                from .. import origins

                for origin in origins.ORIGINS:
                    stats["models_from_origins"] = stats.get("models_from_origins", 0) + 1
                    violations.extend(check_model(net, bounds, P, stats, False, origin))
                continue
            stats["models"] = stats.get("models", 0) + 1
            violations.extend(check_model(net, bounds, P, stats, payload.get("rich", False)))
    return {"violations": violations[:300], "stats": stats}


def replay(case):
    net = tuple(tuple(c) for c in case["net"])
    bounds = tuple((_u(a), _u(b)) for a, b in case["bounds"])
    if case.get("form") == "binding_zero":
        out = check_fraction0(net, bounds, {})
    else:
        out = check_model(net, bounds, params("thorough"), {}, rich=True, origin=case.get("origin"))
    keys = [k for k in case if k not in ("net", "bounds")]
    return [{"sig": s, "detail": d} for s, c, d in out if all(c.get(k) == case[k] for k in keys)]


def explore(ctx):
    P = params(ctx.tier)
    n_self = exactlp.selftest(limit=3000)
    passes = [(P, None)] if ctx.tier == "quick" else thorough_passes()
    payloads, nets = [], []
    for PP, flt in passes:
        ns = [n for n in families.networks(PP["nm"], PP["nr"], PP["K"]) if flt is None or flt(n)]
        off = ctx.seed % len(ns)
        ns = ns[off:] + ns[:off]
        nets += ns
        payloads += [{"params": PP, "nets": ns[i:i + 2], "rich": ctx.thorough and PP["nr"] == 3} for i in range(0, len(ns), 2)]
    # fraction 0 as a binding constraint: 4-reaction members with one forced flux
    P0 = dict(nm=3, nr=4, K=(-1, 0, 1), d=1, menu=[(2, 10), (-10, -2)] + ([(3, 3)] if ctx.thorough else []))
    n4 = [n for n in families.networks(P0["nm"], P0["nr"], P0["K"]) if len(n) == 4]
    payloads += [{"params": P0, "nets": n4[i:i + 8], "fraction0": True} for i in range(0, len(n4), 8)]
    # origins: networks with two boundary and one (thorough: also two) internal reactions, default bounds, reached by
    # every other public route (mc/origins.py)
    from .. import origins

    PO = dict(nm=3, nr=4 if ctx.thorough else 3, K=(-1, 0, 1), d=0, menu=[])
    no = [n for n in families.networks(PO["nm"], PO["nr"], PO["K"]) if len(n) >= 3
          and sum(1 for c in n if families.is_boundary(c)) == 2]
    payloads += [{"params": PO, "nets": no[i:i + 2], "origins": True} for i in range(0, len(no), 2)]
    stats = {}
    with ctx.pool(timeout=3000) as pool:
        for i, status, res in pool.imap(payloads):
            r = ctx.collect(status, res)
            if r is None:
                if status in ("abort", "timeout"):
                    ctx.violation({"method": "", "check": "worker " + status}, {"nets": payloads[i]["nets"]}, status)
                continue
            for k, v in r["stats"].items():
                stats[k] = stats.get(k, 0) + v
    ctx.cov.update({
        "states": stats.get("models", 0), "transitions": stats.get("evaluations", 0),
        "traces_validated_against_impl": stats.get("evaluations", 0),
        "evaluations": stats.get("evaluations", 0), "distinct_nontrivial": stats.get("nontrivial", 0),
        "rule": "feasible members of F(nm=%d, nr<=%d, finite %d-value bounds menu, <=%d deviations) x objectives x "
                "{pfba x fraction 1/0.5/0 x objective/reactions forms; linear MOMA, ROOM, linear ROOM x reference "
                "(FBA, pFBA, default) x knock-out state (none, each single reaction)}; non-trivial = the exact secondary "
                "optimum is non-zero" % (P["nm"], P["nr"], len(P["menu"]), P["d"]),
        "exhaustive": True, "networks": len(nets), "models": stats.get("models", 0), "exactlp_selftest_lps": n_self,
        "origins_pass": "%d networks x %d origins (%s): %d models; route itself failed for %d (judged by C03/C10/C11/C12)" % (
            len(no), len(origins.ORIGINS), ", ".join(origins.ORIGINS), stats.get("models_from_origins", 0),
            stats.get("origin_unavailable", 0)),
        "fraction0_pass": "all %d four-reaction members x <=1 forced bound x every objective r_i - r_j whose fraction-0 "
                          "constraint is binding according to the exact oracle (%d models)" % (len(n4), stats.get("models_fraction0", 0)),
    })
    ctx.sample({"net": [list(c) for c in nets[0]]})
    ctx.assumptions += ["finite bounds only (ROOM's big-M needs them)", "quadratic MOMA not covered (no QP solver)",
                        "ROOM oracle = documented formulation without the implementation's extra old-objective bound"]
