"""C02 - edits do exactly what they document; cross-references stay consistent (E1 BFS on the bench)."""
from .. import benchsearch

PROPERTY = "C02"
LEVEL = "model_checking"
PROPS = ("C02",)


def run_task(payload):
    return benchsearch.run_task(payload, PROPS)


def replay(case):
    return benchsearch.replay_case(case, PROPS)


def explore(ctx):
    benchsearch.explore(ctx, PROPS)
