"""C19 - blocked-reaction and consistency analyses agree with the true flux ranges.

Family F restricted to bounds that include zero x reaction_list x open_exchanges x every
single objective (which must not matter); oracle = exact FVA without objective constraint."""
import itertools
import warnings

from .. import exactlp, families, oracles
from ..exactlp import OPT
from .c04 import _j, _u

PROPERTY = "C19"
LEVEL = "model_checking"
INF = float("inf")
MENU = [(0, 10), (-10, 10), (0, 0), (-10, 0), (0, INF), (-INF, INF), (0, 1000)]


def params(tier):
    if tier == "quick":
        return dict(nm=3, nr=3, K=(-1, 0, 1), d=1, menu=MENU[:5])
    return dict(nm=3, nr=4, K=(-1, 0, 1), d=1, menu=MENU + [(0, 1), (-1, 1)])


def true_blocked(mets, rxns):
    fba = exactlp.FBA(mets, rxns)
    lp = fba.lp()
    rng = oracles.ranges(fba, lp)
    return {rid for rid, (lo, hi) in rng.items() if lo == 0 and hi == 0}


def check_model(net, bounds, P, stats, rich=False, origin=None):
    out = _check_model(net, bounds, P, stats, rich, origin)
    if origin:
        for sg, cs, _ in out:
            sg["origin"] = origin
            cs["origin"] = origin
    return out


def _derive(model, origin, stats):
    """The same model reached by another public route (mc/origins.py); None if the route itself failed."""
    from .. import origins

    try:
        return origins.derive(model, origin)
    except origins.OriginUnavailable:
        stats["origin_unavailable"] = stats.get("origin_unavailable", 0) + 1
        return None


def _check_model(net, bounds, P, stats, rich=False, origin=None):
    from cobra.flux_analysis import fastcc, find_blocked_reactions

    mets, rxns = families.as_data(net, bounds)
    ids = [r[0] for r in rxns]
    comp = {m: ("e" if any(len(r[1]) == 1 and m in r[1] for r in rxns) else "c") for m in mets}
    out = []
    blocked = {False: true_blocked(mets, rxns)}
    opened = [(rid, st, min(lb, -1000), max(ub, 1000)) if len(st) == 1 else (rid, st, lb, ub) for rid, st, lb, ub in rxns]
    blocked[True] = true_blocked(mets, opened)
    if blocked[False] and len(blocked[False]) < len(ids):
        stats["nontrivial"] = stats.get("nontrivial", 0) + 1
    model = families.build_model(mets, rxns, compartments=comp)
    if origin:
        model = _derive(model, origin, stats)
        if model is None:
            return out
    lists = [None] + [[i] for i in ids] + [list(p) for p in itertools.combinations(ids, 2)]
    objectives = [None] + [({r: 1}, d) for r in ids for d in (("max", "min") if rich else ("max",))]
    if not rich:
        objectives = objectives[:3] + [({ids[-1]: 1}, "min")]
    # a second compartment profile: the metabolite of the last boundary reaction lives inside the cell, which makes that
    # reaction a demand or sink - open_exchanges must leave it alone (only run when another exchange remains)
    bnd = [r for r in rxns if len(r[1]) == 1]
    if not origin and len(bnd) >= 2:
        last_met = next(iter(bnd[-1][1]))
        if all(last_met not in r[1] for r in bnd[:-1]):
            comp2 = dict(comp, **{last_met: "c"})
            opened2 = [(rid, st, min(lb, -1000), max(ub, 1000)) if (len(st) == 1 and last_met not in st) else (rid, st, lb, ub)
                       for rid, st, lb, ub in rxns]
            blocked2 = {False: blocked[False], True: true_blocked(mets, opened2)}
            model2 = families.build_model(mets, rxns, compartments=comp2)
            for oe in (False, True):
                for rl in lists[:1 + len(ids)]:
                    case = {"net": [list(c) for c in net], "bounds": [[_j(a), _j(b)] for a, b in bounds],
                            "objective": None, "open_exchanges": oe, "reaction_list": rl, "inside": last_met}
                    stats["evaluations"] = stats.get("evaluations", 0) + 1
                    want = sorted(blocked2[oe] & set(rl if rl is not None else ids))
                    try:
                        with warnings.catch_warnings():
                            warnings.simplefilter("ignore")
                            got = sorted(find_blocked_reactions(model2, reaction_list=rl, open_exchanges=oe, processes=1))
                    except Exception as exc:
                        out.append(({"fn": "find_blocked_reactions", "check": "raised", "exc": type(exc).__name__,
                                     "objective": "none", "open_exchanges": oe, "profile": "demand_or_sink"}, case,
                                    f"{exc!r}\nmodel {rxns}\ncase {case}"))
                        continue
                    if got != want:
                        kind = ("reports non-blocked reactions as blocked" if set(got) - set(want) else
                                "misses blocked reactions")
                        out.append(({"fn": "find_blocked_reactions", "check": kind, "objective": "none",
                                     "open_exchanges": oe, "profile": "demand_or_sink"}, case,
                                    f"returned {got}, truly blocked {want} (boundary reaction of {last_met} is no exchange)\n"
                                    f"model {rxns}\ncase {case}"))
    for obj in objectives:
        if obj is not None:
            model.objective = {model.reactions.get_by_id(r): c for r, c in obj[0].items()}
            model.objective_direction = obj[1]
        for oe in (False, True):
            for rl in (lists if (obj is None or rich) else lists[:2]):
                case = {"net": [list(c) for c in net], "bounds": [[_j(a), _j(b)] for a, b in bounds],
                        "objective": obj, "open_exchanges": oe, "reaction_list": rl}
                stats["evaluations"] = stats.get("evaluations", 0) + 1
                want = sorted(blocked[oe] & set(rl if rl is not None else ids))
                try:
                    with warnings.catch_warnings():
                        warnings.simplefilter("ignore")
                        got = find_blocked_reactions(model, reaction_list=rl, open_exchanges=oe, processes=1)
                except Exception as exc:
                    out.append(({"fn": "find_blocked_reactions", "check": "raised", "exc": type(exc).__name__,
                                 "objective": "none" if obj is None else obj[1], "open_exchanges": oe}, case,
                                f"{exc!r}\nmodel {rxns}\ncase {case}"))
                    continue
                got = sorted(got)
                if got != want:
                    kind = ("reports non-blocked reactions as blocked" if set(got) - set(want) else
                            "misses blocked reactions")
                    out.append(({"fn": "find_blocked_reactions", "check": kind,
                                 "objective": "none" if obj is None else obj[1], "open_exchanges": oe}, case,
                                f"returned {got}, truly blocked {want}\nmodel {rxns}\ncase {case}"))
    # fastcc: once per objective setting of the input model (which must not matter)
    first = None
    for oname, obj in (("none", None), ("max", ({ids[-1]: 1}, "max")), ("min", ({ids[-1]: 1}, "min")),
                       ("min0", ({ids[0]: 1}, "min"))):
        got = check_fastcc(net, bounds, mets, rxns, ids, comp, blocked, obj, oname, stats, out, origin)
        if got is None:
            continue
        if first is None:
            first = (oname, got)
        elif got != first[1]:
            case = {"net": [list(c) for c in net], "bounds": [[_j(a), _j(b)] for a, b in bounds], "fastcc": True,
                    "objective": oname}
            out.append(({"fn": "fastcc", "check": "result depends on the objective of the input model", "objective": oname},
                        case, f"objective {oname}: kept {got}; objective {first[0]}: kept {first[1]}\nmodel {rxns}"))
    return out


def check_fastcc(net, bounds, mets, rxns, ids, comp, blocked, obj, oname, stats, out, origin=None):
    from cobra.flux_analysis import fastcc

    case = {"net": [list(c) for c in net], "bounds": [[_j(a), _j(b)] for a, b in bounds], "fastcc": True}
    if obj is not None:
        case["objective"] = oname
    stats["evaluations"] = stats.get("evaluations", 0) + 1
    model = families.build_model(mets, rxns, compartments=comp, rules={ids[0]: "g1 and g2", ids[-1]: "g2 or g3"})
    if obj is not None:
        model.objective = {model.reactions.get_by_id(r): c for r, c in obj[0].items()}
        model.objective_direction = obj[1]
    if origin:
        model = _derive(model, origin, stats)
        if model is None:
            return None
    from .. import observe

    before = observe.python_view(model)
    before_obj = observe.objective_view(model)
    try:
        with warnings.catch_warnings():
            warnings.simplefilter("ignore")
            cm = fastcc(model)
    except Exception as exc:
        out.append(({"fn": "fastcc", "check": "raised", "exc": type(exc).__name__}, case, f"{exc!r}\nmodel {rxns}"))
        return None
    keep = sorted(set(ids) - blocked[False])
    got = sorted(r.id for r in cm.reactions)
    if got != keep:
        kind = "keeps blocked reactions" if set(got) - set(keep) else "drops non-blocked reactions"
        sig = {"fn": "fastcc", "check": kind}
        if kind.startswith("drops"):
            bnds = {r[0]: (r[2], r[3]) for r in rxns}
            dropped = set(keep) - set(got)
            rev = {d for d in dropped if bnds[d][0] < 0 < bnds[d][1]}
            sig["dropped"] = "reversible" if rev == dropped else "irreversible" if not rev else "mixed"
        out.append((sig, case, f"kept {got}, non-blocked {keep}\nmodel {rxns}"))
    else:
        src = {r["id"]: r for r in before["reactions"]}  # noqa
        for r in cm.reactions:
            v = observe.reaction_view(r)
            for k in ("lb", "ub", "mets", "rule_genes", "table"):
                if v[k] != src[r.id][k]:
                    out.append(({"fn": "fastcc", "check": "kept reaction changed: " + k}, case,
                                f"{r.id}: {v[k]} vs {src[r.id][k]}\nmodel {rxns}"))
    after = observe.python_view(model)
    d = observe.diff(before, after)
    if d:
        out.append(({"fn": "fastcc", "check": "input model changed at " + observe.first_path(d)}, case, "\n".join(d)))
    if observe.objective_view(model) != before_obj:
        out.append(({"fn": "fastcc", "check": "input model objective changed"}, case,
                    f"{before_obj} -> {observe.objective_view(model)}"))
    return got


STRUCTURED = [
    # uptake feeding two parallel irreversible branches; a chain with a bypass; a branch with a dead end
    ((-1, 0, 0), (-1, 1, 0), (-1, 0, 1), (0, -1, 0), (0, 0, -1)),
    ((-1, 0, 0), (-1, 1, 0), (0, -1, 1), (-1, 0, 1), (0, 0, -1)),
    ((-1, 0, 0), (-1, 1, 0), (-1, 0, 1), (0, -1, 0)),
]
SMALL = [(0, 1), (-1, 0), (-1, 1), (0, 0.5)]


def structured_cases():
    for net in STRUCTURED:
        base = tuple((-10, 10) if families.is_boundary(c) else (0, 10) for c in net)
        yield net, base
        for i in range(len(net)):
            for alt in SMALL + [(0, 0), (-10, 10)]:
                b = list(base)
                b[i] = alt
                yield net, tuple(b)
                for j in range(i + 1, len(net)):
                    for alt2 in SMALL[:2]:
                        b2 = list(b)
                        b2[j] = alt2
                        yield net, tuple(b2)


def run_task(payload):
    if payload.get("structured"):
        stats, violations = {}, []
        for net, bounds in payload["cases"]:
            net = tuple(tuple(c) for c in net)
            bounds = tuple(tuple(b) for b in bounds)
            stats["models"] = stats.get("models", 0) + 1
            violations.extend(check_model(net, bounds, payload["params"], stats, False))
        return {"violations": violations[:300], "stats": stats}
    P = payload["params"]
    stats, violations = {}, []
    for net in payload["nets"]:
        net = tuple(tuple(c) for c in net)
        for bounds in families.bound_assignments(net, P["d"], P["menu"]):
            bounds = tuple((lb, ub) if lb <= 0 <= ub else (min(lb, 0), max(ub, 0)) for lb, ub in bounds)
            if payload.get("origins"):
                from .. import origins

                for origin in origins.ORIGINS:
                    stats["models_from_origins"] = stats.get("models_from_origins", 0) + 1
                    violations.extend(check_model(net, bounds, P, stats, False, origin))
                continue
            stats["models"] = stats.get("models", 0) + 1
            violations.extend(check_model(net, bounds, P, stats, payload.get("rich", False)))
    return {"violations": violations[:300], "stats": stats}


def replay(case):
    net = tuple(tuple(c) for c in case["net"])
    bounds = tuple((_u(a), _u(b)) for a, b in case["bounds"])
    out = check_model(net, bounds, params("thorough"), {}, rich=True, origin=case.get("origin"))
    keys = [k for k in case if k not in ("net", "bounds")]

    def same(c):
        return all((list(c.get(k)) if isinstance(c.get(k), tuple) else c.get(k)) == case[k] for k in keys)

    import json
    return [{"sig": s, "detail": d} for s, c, d in out if json.loads(json.dumps(c)) == case]


def explore(ctx):
    P = params(ctx.tier)
    n_self = exactlp.selftest(limit=3000)
    nets = families.networks(P["nm"], P["nr"], P["K"])
    off = ctx.seed % len(nets)
    nets = nets[off:] + nets[:off]
    payloads = [{"params": P, "nets": nets[i:i + 2], "rich": ctx.thorough} for i in range(0, len(nets), 2)]
    # origins: the members with exactly three reactions, default bounds, reached by every other public route
    from .. import origins

    PO = dict(P, d=0)
    no = [n for n in nets if len(n) == 3]
    if ctx.tier == "quick":
        no = no[::4]
    payloads += [{"params": PO, "nets": no[i:i + 3], "origins": True} for i in range(0, len(no), 3)]
    sc = list(structured_cases())
    payloads += [{"params": P, "structured": True, "cases": sc[i:i + 20]} for i in range(0, len(sc), 20)]
    stats = {}
    with ctx.pool(timeout=3000) as pool:
        for i, status, res in pool.imap(payloads):
            r = ctx.collect(status, res)
            if r is None:
                if status in ("abort", "timeout"):
                    ctx.violation({"fn": "", "check": "worker " + status}, {"nets": payloads[i]["nets"]}, status)
                continue
            for k, v in r["stats"].items():
                stats[k] = stats.get(k, 0) + v
    ctx.cov.update({
        "states": stats.get("models", 0), "transitions": stats.get("evaluations", 0),
        "traces_validated_against_impl": stats.get("evaluations", 0),
        "evaluations": stats.get("evaluations", 0), "distinct_nontrivial": stats.get("nontrivial", 0),
        "rule": "members of F(nm=%d, nr<=%d, <=%d deviations) with all bounds including zero (menu of %d) x "
                "reaction_list (None, singles, pairs) x open_exchanges x objectives (none, each single reaction) for "
                "find_blocked_reactions; fastcc with default thresholds; exact FVA of the flux cone as oracle; "
                "non-trivial = some but not all reactions truly blocked" % (P["nm"], P["nr"], P["d"], len(P["menu"])),
        "exhaustive": True, "networks": len(nets), "models": stats.get("models", 0), "exactlp_selftest_lps": n_self,
        "origins_pass": "%d three-reaction networks x %d origins (%s): %d models; route itself failed for %d" % (
            len(no), len(origins.ORIGINS), ", ".join(origins.ORIGINS), stats.get("models_from_origins", 0),
            stats.get("origin_unavailable", 0)),
    })
    ctx.sample({"net": [list(c) for c in nets[0]]})
    ctx.assumptions += ["metabolites with a boundary reaction live in compartment e so that model.exchanges is the "
                        "set of boundary reactions"]
