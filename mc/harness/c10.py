"""C10 - SBML export is valid and import(export(model)) is the same model.

Feature-product family x transports (path, handle, string) x f_replace; shipped SBML files;
third-party document shapes produced with libsbml.  Oracles: libsbml/cobra validator,
content equality (15 significant digits), idempotence, independent libsbml extraction."""
import re
import glob
import io
import logging
import os
import tempfile
import warnings

from .. import iomodels, observe
from .c11 import INF, _jl, _ju, _norm

PROPERTY = "C10"
LEVEL = "model_checking"

TRANSPORTS = ["path", "handle", "string"]
# the property asks for a document "the SBML validator accepts": SBML-level errors (cobra's own lint
# COBRA_ERROR, e.g. "no objective coefficients", describes the model, not the document)
ERROR_KEYS = ("SBML_FATAL", "SBML_ERROR", "SBML_SCHEMA_ERROR", "COBRA_FATAL")


class LogCapture(logging.Handler):
    def __init__(self):
        super().__init__(level=logging.WARNING)
        self.records = []

    def emit(self, record):
        try:
            self.records.append((record.levelname, record.getMessage()))
        except Exception:
            pass


def write_read(model, transport, f_replace, tmpdir, name="m.xml"):
    import cobra.io as cio

    kw = {} if f_replace == "default" else {"f_replace": {}}
    p = os.path.join(tmpdir, name)
    if transport == "path":
        cio.write_sbml_model(model, p, **kw)
        return cio.read_sbml_model(p, **kw), p
    if transport == "handle":
        with open(p, "w") as fh:
            cio.write_sbml_model(model, fh, **kw)
        with open(p) as fh:
            return cio.read_sbml_model(fh, **kw), p
    buf = io.StringIO()
    cio.write_sbml_model(model, buf, **kw)
    text = buf.getvalue()
    with open(p, "w") as fh:
        fh.write(text)
    return cio.read_sbml_model(text, **kw), p


def _norm_annotation(a):
    # a (qualifier, identifier) pair stands for its identifier (the reader returns identifiers only: the qualifier is
    # outside what the model classes compare); a single identifier may be stored as a string or as a one-element list
    if not isinstance(a, dict):
        return a
    from cobra.io.sbml import QUALIFIER_TYPES

    out = {}
    for k, v in a.items():
        if isinstance(v, list):
            v = [x[1] if isinstance(x, list) and len(x) == 2 and x[0] in QUALIFIER_TYPES else x for x in v]
            if len(v) == 1:
                v = v[0]
        out[k] = v
    return out


def sbml_view(model):
    v = iomodels.content_view(model, with_groups=True)
    v = iomodels.round15(v)
    v["annotation"] = _norm_annotation(v["annotation"])
    for k in ("reactions", "metabolites", "genes", "groups"):
        for x in v[k].values():
            x["annotation"] = _norm_annotation(x["annotation"])
    for r in v["reactions"].values():
        r.pop("subsystem", None)  # not in the property's attribute list for SBML (groups carry it)
    return v


def check_case(d, transport, f_replace, tmpdir, cfg=None):
    import cobra

    conf = cobra.Configuration()
    old = conf.bounds
    try:
        if cfg is not None:
            conf.bounds = tuple(cfg)
            if d.get("bounds") == "config_default":
                d = dict(d)
                d["bounds"] = tuple(cfg)
        return _check_case(d, transport, f_replace, tmpdir)
    finally:
        conf.bounds = old


def _check_case(d, transport, f_replace, tmpdir):
    import cobra.io as cio

    problems = []
    logging.disable(logging.NOTSET)
    with warnings.catch_warnings():
        warnings.simplefilter("ignore")
        if "bench_op" in d:
            from .c11 import bench_model

            model = bench_model(d["bench_op"])
        else:
            model = iomodels.build(d)
        before = sbml_view(model)
        try:
            m2, path = write_read(model, transport, f_replace, tmpdir)
        except Exception as exc:
            return [("round trip raised " + type(exc).__name__, repr(exc)[:500])]
        try:
            _, errors = cio.validate_sbml_model(path, **({} if f_replace == "default" else {"f_replace": {}}))
            for k in ERROR_KEYS:
                if errors.get(k):
                    problems.append((f"validator reports {k}", "\n".join(str(e)[:300] for e in errors[k][:3])))
        except Exception as exc:
            problems.append(("validator raised " + type(exc).__name__, repr(exc)[:300]))
        after = sbml_view(m2)
        df = observe.diff(before, after)
        if df:
            problems.append(("content differs at " + _norm(observe.first_path(df)), "\n".join(df)))
        if observe.diff(before, sbml_view(model)):
            problems.append(("writing modified the model", ""))
        lp = observe.lp_problems(m2)
        if lp:
            problems.append(("loaded model's solver problem inconsistent: " + lp[0][:80], "\n".join(lp[:4])))
        if not df:
            o1, o2 = model.slim_optimize(), m2.slim_optimize()
            if not (o1 == o2 or (o1 != o1 and o2 != o2) or abs(o1 - o2) <= 1e-9 * max(1, abs(o1))):
                problems.append(("optimum differs", f"{o1} vs {o2}"))
        if not problems and "bench_op" not in d:
            # write, edit in place, write again - on the model that was written and on the model that was read (which
            # carries whatever the reader attached to it): the second document describes the edited model
            for who, mm in (("written", model), ("read", m2)):
                try:
                    iomodels.edit_in_place(mm)
                    edited = sbml_view(mm)
                    m4, _ = write_read(mm, transport, f_replace, tmpdir, "m4.xml")
                    d4 = observe.diff(edited, sbml_view(m4))
                    if d4:
                        problems.append((f"{who} model written again after in-place edits: content differs at " +
                                         _norm(observe.first_path(d4)), "\n".join(d4)))
                except Exception as exc:
                    problems.append((f"writing the {who} model after in-place edits raised " + type(exc).__name__, repr(exc)[:300]))
            with warnings.catch_warnings():
                warnings.simplefilter("ignore")
                model = iomodels.build(d)
                m2, path = write_read(model, transport, f_replace, tmpdir)
        if not problems:
            try:
                m3, _ = write_read(m2, transport, f_replace, tmpdir, "m3.xml")
                d2 = observe.diff(after, sbml_view(m3))
                if d2:
                    problems.append(("second round trip changes the model at " + _norm(observe.first_path(d2)), "\n".join(d2)))
            except Exception as exc:
                problems.append(("second round trip raised " + type(exc).__name__, repr(exc)[:300]))
    return problems


# ---------------------------------------------------------------------------------------
# independent extraction with libsbml

def extract(path_or_doc):
    """Stoichiometry, bounds and objective straight from the document (no cobra code)."""
    import libsbml

    doc = libsbml.readSBMLFromFile(path_or_doc) if isinstance(path_or_doc, str) else path_or_doc
    m = doc.getModel()
    fbc = m.getPlugin("fbc")
    params = {p.getId(): p.getValue() for p in m.getListOfParameters()}
    out = {"reactions": {}, "objective": {}, "direction": None}
    for r in m.getListOfReactions():
        st = {}
        for lst, sign in ((r.getListOfReactants(), -1), (r.getListOfProducts(), 1)):
            for sr in lst:
                c = sr.getStoichiometry() if sr.isSetStoichiometry() else 1.0
                st[sr.getSpecies()] = st.get(sr.getSpecies(), 0.0) + sign * c
        rf = r.getPlugin("fbc")
        lb = ub = None
        kl = r.getKineticLaw()
        if rf is None and kl is not None:
            # COBRA-toolbox flavour (no fbc package): bounds and objective coefficient are kinetic-law parameters
            kp = {q.getId(): q.getValue() for q in kl.getListOfParameters()}
            lb, ub = kp.get("LOWER_BOUND"), kp.get("UPPER_BOUND")
            if kp.get("OBJECTIVE_COEFFICIENT"):
                out["objective"][r.getId()] = kp["OBJECTIVE_COEFFICIENT"]
                out["direction"] = "max"
        if rf is not None:
            if rf.isSetLowerFluxBound():
                lb = params.get(rf.getLowerFluxBound())
            if rf.isSetUpperFluxBound():
                ub = params.get(rf.getUpperFluxBound())
        out["reactions"][r.getId()] = {"st": {k: v for k, v in st.items() if v != 0}, "lb": lb, "ub": ub}
    if fbc is not None and fbc.getNumObjectives():
        act = fbc.getActiveObjective() or fbc.getObjective(0)
        if act is not None:
            out["direction"] = {"maximize": "max", "minimize": "min"}.get(act.getType())
            for fo in act.getListOfFluxObjectives():
                out["objective"][fo.getReaction()] = fo.getCoefficient()
    return out


def compare_with_extraction(model, ext, log):
    """model read by cobrapy vs independent extraction; ids compared after stripping R_/M_ prefixes."""
    P = []

    def strip(i, pre):
        return i[len(pre):] if i.startswith(pre) else i

    from cobra.io.sbml import _f_reaction, _f_specie

    logged = " ".join(msg for _, msg in log)
    for rid, e in ext["reactions"].items():
        cid = _f_reaction(rid)
        if cid not in model.reactions:
            if rid not in logged and cid not in logged:
                P.append(("reaction silently dropped", rid))
            continue
        r = model.reactions.get_by_id(cid)
        if rid in logged or cid in logged:
            continue
        got = {m.id: float(c) for m, c in r.metabolites.items()}
        want = {_f_specie(k): v for k, v in e["st"].items()}
        if set(got) != set(want) or any(abs(got[k] - want[k]) > 1e-12 * max(1, abs(want[k])) for k in want):
            P.append(("stoichiometry silently altered", f"{rid}: read {got}, document {want}"))
        for name, gv, wv in (("lower", r.lower_bound, e["lb"]), ("upper", r.upper_bound, e["ub"])):
            if wv is not None and not (gv == wv or abs(gv - wv) <= 1e-12 * max(1, abs(wv))):
                P.append((f"{name} bound silently altered", f"{rid}: read {gv}, document {wv}"))
    from cobra.util.solver import linear_reaction_coefficients

    got = {r.id: float(c) for r, c in linear_reaction_coefficients(model).items() if c != 0}
    want = {_f_reaction(k): v for k, v in ext["objective"].items() if v != 0}
    if got != want and "bjective" not in logged:
        P.append(("objective silently altered", f"read {got}, document {want}"))
    if ext["direction"] and model.objective_direction != ext["direction"] and want:
        P.append(("objective direction silently altered", f"{model.objective_direction} vs {ext['direction']}"))
    return P


def _ws(x):
    """Collapse whitespace in strings (notes of shipped files contain indented XHTML, not plain text)."""
    if isinstance(x, str):
        return " ".join(x.split())
    if isinstance(x, dict):
        return {k: _ws(v) for k, v in x.items()}
    if isinstance(x, list):
        return [_ws(v) for v in x]
    return x


def sbml_files():
    files = []
    for pat in ("/repo/src/cobra/data/*.xml*", "/repo/tests/data/*.xml*"):
        files += sorted(glob.glob(pat))
    return files


def check_file(path, tmpdir, quick=True):
    import cobra.io as cio

    problems = []
    logging.disable(logging.NOTSET)
    cap = LogCapture()
    root = logging.getLogger("cobra")
    root.addHandler(cap)
    try:
        with warnings.catch_warnings():
            warnings.simplefilter("ignore")
            try:
                model, errors = cio.validate_sbml_model(path)
            except Exception as exc:
                return [], "validator raised"
            if model is None or any(errors.get(k) for k in ERROR_KEYS):
                return [], "rejected by the validator"
            cap.records = []
            model = cio.read_sbml_model(path)
            log = list(cap.records)
            import gzip, bz2, libsbml

            if path.endswith(".gz"):
                text = gzip.open(path, "rt").read()
            elif path.endswith(".bz2"):
                text = bz2.open(path, "rt").read()
            else:
                text = open(path).read()
            doc = libsbml.readSBMLFromString(text)
            for kind, detail in compare_with_extraction(model, extract(doc), log):
                problems.append((kind, detail))
            m2, p2 = write_read(model, "path", "default", tmpdir, "file_rt.xml")
            a, b = _ws(sbml_view(model)), _ws(sbml_view(m2))
            df = observe.diff(a, b)
            if df:
                problems.append(("file round trip changes the model at " + _norm(observe.first_path(df)), "\n".join(df[:8])))
            _, e2 = cio.validate_sbml_model(p2)
            for k in ERROR_KEYS:
                if e2.get(k):
                    problems.append((f"re-exported file: validator reports {k}", "\n".join(str(e)[:300] for e in e2[k][:3])))
    finally:
        root.removeHandler(cap)
    return problems, "checked"


# ---------------------------------------------------------------------------------------
# third-party shapes: documents cobrapy's writer never emits, derived with libsbml

THIRD_PARTY = ["own_bound_parameters", "species_twice_same_side", "species_both_sides", "noninteger_stoichiometry",
               "minimize", "inactive_second_objective", "boundary_condition_species", "shared_bound_parameter",
               "no_stoichiometry_attribute",
               # fbc:strict="false" documents may leave flux bounds out (for one reaction, before or after bounded ones)
               "unset_bounds_second_reaction", "unset_bounds_first_reaction", "unset_upper_bound_last_reaction"]


def make_third_party(base_path, features, out_path):
    import libsbml

    doc = libsbml.readSBMLFromFile(base_path)
    m = doc.getModel()
    fbc = m.getPlugin("fbc")
    r1 = m.getReaction("R_R1")
    r2 = m.getReaction("R_R2")
    for f in features:
        if f == "own_bound_parameters":
            for k, r in enumerate(m.getListOfReactions()):
                rf = r.getPlugin("fbc")
                for side, val in (("lb", -7.5 - k), ("ub", 11.25 + k)):
                    p = m.createParameter()
                    p.setId(f"{r.getId()}_{side}_own")
                    p.setValue(val)
                    p.setConstant(True)
                    (rf.setLowerFluxBound if side == "lb" else rf.setUpperFluxBound)(p.getId())
        elif f == "shared_bound_parameter":
            p = m.createParameter()
            p.setId("shared_ub")
            p.setValue(42.0)
            p.setConstant(True)
            for r in (r1, r2):
                r.getPlugin("fbc").setUpperFluxBound("shared_ub")
        elif f == "species_twice_same_side":
            sr = r1.createReactant()
            sr.setSpecies(r1.getReactant(0).getSpecies())
            sr.setStoichiometry(2.0)
            sr.setConstant(True)
        elif f == "species_both_sides":
            sr = r2.createProduct()
            sr.setSpecies(r2.getReactant(0).getSpecies())
            sr.setStoichiometry(3.0)
            sr.setConstant(True)
        elif f == "noninteger_stoichiometry":
            r1.getProduct(0).setStoichiometry(0.3333333333333333)
        elif f == "no_stoichiometry_attribute":
            r1.getProduct(0).unsetStoichiometry()
        elif f == "minimize":
            fbc.getObjective(0).setType("minimize")
        elif f == "inactive_second_objective":
            o = fbc.createObjective()
            o.setId("second")
            o.setType("minimize")
            fo = o.createFluxObjective()
            fo.setReaction("R_R2")
            fo.setCoefficient(5.0)
        elif f == "boundary_condition_species":
            m.getSpecies("M_C_e").setBoundaryCondition(True)
        elif f.startswith("unset_"):
            fbc.setStrict(False)
            rs = list(m.getListOfReactions())
            r = {"unset_bounds_second_reaction": rs[1], "unset_bounds_first_reaction": rs[0],
                 "unset_upper_bound_last_reaction": rs[-1]}[f]
            rf = r.getPlugin("fbc")
            rf.unsetUpperFluxBound()
            if "upper" not in f:
                rf.unsetLowerFluxBound()
    libsbml.writeSBMLToFile(doc, out_path)


def reorder_lists(path, out_path):
    """The same document with listOfReactions, listOfSpecies and listOfParameters reversed (SBML lists are unordered
    sets: the meaning of the document is the same)."""
    import libsbml

    doc = libsbml.readSBMLFromFile(path)
    m = doc.getModel()
    for lst in (m.getListOfReactions(), m.getListOfSpecies(), m.getListOfParameters()):
        items = [lst.get(i).clone() for i in range(lst.size())]
        while lst.size():
            lst.remove(0)
        for it in reversed(items):
            lst.append(it)
    libsbml.writeSBMLToFile(doc, out_path)


def reaction_content(model):
    from cobra.util.solver import linear_reaction_coefficients

    obj = {r.id: float(c) for r, c in linear_reaction_coefficients(model).items() if c != 0}
    return {r.id: {"st": {m.id: float(c) for m, c in sorted(r.metabolites.items(), key=lambda kv: kv[0].id)},
                   "bounds": [float(r.lower_bound), float(r.upper_bound)], "objective": obj.get(r.id, 0.0),
                   "rule": r.gene_reaction_rule and sorted(g.id for g in r.genes)}
            for r in model.reactions}


def check_third_party(features, tmpdir):
    import cobra.io as cio
    import libsbml

    problems = []
    logging.disable(logging.NOTSET)
    cap = LogCapture()
    root = logging.getLogger("cobra")
    root.addHandler(cap)
    try:
        with warnings.catch_warnings():
            warnings.simplefilter("ignore")
            base = os.path.join(tmpdir, "base.xml")
            cio.write_sbml_model(iomodels.build(dict(iomodels.DEFAULT)), base)
            out = os.path.join(tmpdir, "third.xml")
            make_third_party(base, features, out)
            doc = libsbml.readSBMLFromFile(out)
            doc.setConsistencyChecks(libsbml.LIBSBML_CAT_UNITS_CONSISTENCY, False)
            doc.setConsistencyChecks(libsbml.LIBSBML_CAT_MODELING_PRACTICE, False)
            nerr = doc.checkConsistency()
            if any(doc.getError(i).getSeverity() >= libsbml.LIBSBML_SEV_ERROR for i in range(doc.getNumErrors())):
                return [], "not valid SBML"
            cap.records = []
            try:
                model = cio.read_sbml_model(out)
            except Exception as exc:
                return [("reading a valid third-party document raised " + type(exc).__name__, repr(exc)[:300])], "checked"
            for kind, detail in compare_with_extraction(model, extract(out), list(cap.records)):
                problems.append((kind, detail))
            # the document with its (unordered) lists written in another order is the same document
            out2 = os.path.join(tmpdir, "third_reordered.xml")
            reorder_lists(out, out2)
            try:
                model2 = cio.read_sbml_model(out2)
            except Exception as exc:
                return problems + [("reading the document with reordered lists raised " + type(exc).__name__,
                                    repr(exc)[:300])], "checked"
            c1, c2 = reaction_content(model), reaction_content(model2)
            for rid in sorted(set(c1) | set(c2)):
                if repr(c1.get(rid)) != repr(c2.get(rid)):   # repr: a nan coefficient equals itself
                    problems.append(("what is read depends on the order of the document's lists",
                                     f"{rid}: {c1.get(rid)} vs {c2.get(rid)} (lists reversed)"))
                    break
            if model.objective_direction != model2.objective_direction:
                problems.append(("what is read depends on the order of the document's lists",
                                 f"direction {model.objective_direction} vs {model2.objective_direction}"))
    finally:
        root.removeHandler(cap)
    return problems, "checked"


# legacy documents (SBML level 2, no fbc package): bounds and objective coefficients as kinetic-law parameters
LEGACY = [(nb, obj, order) for nb in (0, 1, 2) for obj in ("R_UPT", "R_CONV", "R_SEC") for order in ("doc", "reversed")]


def make_legacy(n_boundary, objective, order, out_path):
    def klaw(lb, ub, oc):
        return ('<kineticLaw><math xmlns="http://www.w3.org/1998/Math/MathML"><ci> FLUX_VALUE </ci></math><listOfParameters>'
                f'<parameter id="LOWER_BOUND" value="{lb}"/><parameter id="UPPER_BOUND" value="{ub}"/>'
                f'<parameter id="FLUX_VALUE" value="0"/><parameter id="OBJECTIVE_COEFFICIENT" value="{oc}"/>'
                '</listOfParameters></kineticLaw>')

    def rxn(rid, left, right, lb, ub, coef=1):
        return (f'<reaction id="{rid}" reversible="{"true" if lb < 0 else "false"}"><listOfReactants>'
                f'<speciesReference species="{left}" stoichiometry="1"/></listOfReactants><listOfProducts>'
                f'<speciesReference species="{right}" stoichiometry="{coef}"/></listOfProducts>'
                f'{klaw(lb, ub, 1 if rid == objective else 0)}</reaction>')

    bc = ['boundaryCondition="true"' if k < n_boundary else "" for k in range(2)]
    rs = [rxn("R_UPT", "M_a_b", "M_a_c", 0, 10), rxn("R_CONV", "M_a_c", "M_p_c", -5, 1000, 2), rxn("R_SEC", "M_p_c", "M_p_b", 0, 30)]
    if order == "reversed":
        rs = rs[::-1]
    doc = ('<?xml version="1.0" encoding="UTF-8"?><sbml xmlns="http://www.sbml.org/sbml/level2/version4" level="2" version="4">'
           '<model id="legacy"><listOfCompartments><compartment id="c"/><compartment id="b"/></listOfCompartments><listOfSpecies>'
           f'<species id="M_a_b" name="a" compartment="b" {bc[0]}/><species id="M_p_b" name="p" compartment="b" {bc[1]}/>'
           '<species id="M_a_c" name="a" compartment="c"/><species id="M_p_c" name="p" compartment="c"/></listOfSpecies>'
           f'<listOfReactions>{"".join(rs)}</listOfReactions></model></sbml>')
    with open(out_path, "w") as fh:
        fh.write(doc)


def check_legacy(item, tmpdir):
    import cobra.io as cio
    import libsbml

    problems = []
    logging.disable(logging.NOTSET)
    cap = LogCapture()
    root = logging.getLogger("cobra")
    root.addHandler(cap)
    try:
        with warnings.catch_warnings():
            warnings.simplefilter("ignore")
            out = os.path.join(tmpdir, "legacy.xml")
            make_legacy(item[0], item[1], item[2], out)
            doc = libsbml.readSBMLFromFile(out)
            doc.setConsistencyChecks(libsbml.LIBSBML_CAT_UNITS_CONSISTENCY, False)
            doc.setConsistencyChecks(libsbml.LIBSBML_CAT_MODELING_PRACTICE, False)
            doc.checkConsistency()
            if any(doc.getError(i).getSeverity() >= libsbml.LIBSBML_SEV_ERROR for i in range(doc.getNumErrors())):
                return [], "not valid SBML"
            cap.records = []
            try:
                model = cio.read_sbml_model(out)
            except Exception as exc:
                return [("reading a valid legacy document raised " + type(exc).__name__, repr(exc)[:300])], "checked"
            # (the notices about added exchange reactions name boundary species, not the document's reactions)
            # the reader's notices about the discouraged kinetic-law parameters name every reaction: they announce no
            # change of content and do not excuse one
            log = [(lv, msg) for lv, msg in cap.records if not any(r in msg for r in ("UPT", "CONV", "SEC"))]
            for kind, detail in compare_with_extraction(model, extract(out), log):
                problems.append((kind, detail))
    finally:
        root.removeHandler(cap)
    return problems, "checked"


# ---------------------------------------------------------------------------------------

def run_task(payload):
    stats, violations = {}, []
    with tempfile.TemporaryDirectory(prefix="c10_") as tmpdir:
        for item in payload["cases"]:
            stats["evaluations"] = stats.get("evaluations", 0) + 1
            if item[0] == "file":
                probs, verdict = check_file(item[1], tmpdir)
                stats["files_" + verdict.replace(" ", "_")] = stats.get("files_" + verdict.replace(" ", "_"), 0) + 1
                for kind, detail in probs:
                    violations.append(({"source": "file", "file": os.path.basename(item[1]), "problem": kind},
                                       {"file": item[1]}, f"{item[1]}\n{kind}\n{detail}"))
                continue
            if item[0] == "bench":
                from ..benchsearch import _t

                op = _t(item[1]) if item[1] is not None else None
                for kind, detail in _check_case({"bench_op": op}, item[2], "default", tmpdir):
                    violations.append(({"source": "bench", "problem": kind, "bench_op": item[1][0] if item[1] else "none"},
                                       {"bench": item[1], "transport": item[2]}, f"bench after {item[1]}\n{kind}\n{detail}"))
                continue
            if item[0] == "legacy":
                probs, verdict = check_legacy(item[1], tmpdir)
                stats["legacy_" + verdict.replace(" ", "_")] = stats.get("legacy_" + verdict.replace(" ", "_"), 0) + 1
                for kind, detail in probs:
                    violations.append(({"source": "legacy_document", "boundary_species": item[1][0], "problem": kind},
                                       {"legacy": list(item[1])}, f"{item[1]}\n{kind}\n{detail}"))
                continue
            if item[0] == "third":
                probs, verdict = check_third_party(item[1], tmpdir)
                stats["third_" + verdict.replace(" ", "_")] = stats.get("third_" + verdict.replace(" ", "_"), 0) + 1
                for kind, detail in probs:
                    violations.append(({"source": "third_party", "features": "+".join(item[1]), "problem": kind},
                                       {"third": list(item[1])}, f"{item[1]}\n{kind}\n{detail}"))
                continue
            d, transport, f_replace = item[:3]
            cfg = item[3] if len(item) > 3 else None
            d = {k: (tuple(v) if isinstance(v, list) else v) for k, v in d.items()}
            probs = check_case(d, transport, f_replace, tmpdir, cfg)
            if cfg is not None:
                for kind, detail in probs:
                    violations.append(({"source": "family", "problem": kind, "features": "config_bounds"},
                                       {"features": _jl(d), "transport": transport, "f_replace": f_replace, "config": list(cfg)},
                                       f"{kind}\nConfiguration().bounds = {cfg}; features {iomodels.describe(d)}\n{detail}"))
                continue
            off = iomodels.describe(d)
            if probs and len(off) > 1:
                # interactions are only judged when every feature alone round-trips cleanly (a failing single
                # feature is reported by its own case and would shadow the interaction anyway)
                shadowed = False
                for f in sorted(off):
                    single = dict(iomodels.DEFAULT)
                    single[f] = d[f]
                    if check_case(single, transport, f_replace, tmpdir):
                        shadowed = True
                        break
                if shadowed:
                    stats["shadowed_pairs"] = stats.get("shadowed_pairs", 0) + 1
                    continue
            for kind, detail in probs:
                violations.append((sig_of(d, transport, f_replace, kind),
                                   {"features": _jl(d), "transport": transport, "f_replace": f_replace},
                                   f"{kind}\nfeatures off default: {off}; {transport}; f_replace {f_replace}\n{detail}"))
    return {"violations": violations[:400], "stats": stats}


def sig_of(d, transport, f_replace, kind):
    off = iomodels.describe(d)
    sig = {"source": "family", "problem": kind, "features": "+".join(sorted(off)) or "default"}
    if len(off) == 1:
        (f, v), = off.items()
        if f == "bounds":
            b = d["bounds"]
            v = ("lb>default_ub" if b[0] > 1000 else "inf" if INF in (abs(b[0]), abs(b[1])) else
                 "beyond_default" if (b[0] < -1000 or b[1] > 1000) else "within")
        sig["value"] = v
    if f_replace != "default":
        sig["f_replace"] = f_replace
    return sig


def replay(case):
    with tempfile.TemporaryDirectory(prefix="c10_") as tmpdir:
        if "file" in case:
            probs, _ = check_file(case["file"], tmpdir)
            return [{"sig": {"source": "file", "file": os.path.basename(case["file"]), "problem": k}, "detail": d} for k, d in probs]
        if "bench" in case:
            from ..benchsearch import _t

            op = _t(case["bench"]) if case["bench"] is not None else None
            probs = _check_case({"bench_op": op}, case["transport"], "default", tmpdir)
            return [{"sig": {"source": "bench", "problem": k, "bench_op": case["bench"][0] if case["bench"] else "none"},
                     "detail": dd} for k, dd in probs]
        if "legacy" in case:
            probs, _ = check_legacy(tuple(case["legacy"]), tmpdir)
            return [{"sig": {"source": "legacy_document", "boundary_species": case["legacy"][0], "problem": k}, "detail": d}
                    for k, d in probs]
        if "third" in case:
            probs, _ = check_third_party(tuple(case["third"]), tmpdir)
            return [{"sig": {"source": "third_party", "features": "+".join(case["third"]), "problem": k}, "detail": d}
                    for k, d in probs]
        d = _ju(case["features"])
        if case.get("config"):
            probs = check_case(d, case["transport"], case["f_replace"], tmpdir, tuple(case["config"]))
            return [{"sig": {"source": "family", "problem": k, "features": "config_bounds"}, "detail": dd} for k, dd in probs]
        probs = check_case(d, case["transport"], case["f_replace"], tmpdir)
        return [{"sig": sig_of(d, case["transport"], case["f_replace"], k), "detail": dd} for k, dd in probs]


def explore(ctx):
    import itertools

    models = [d for d in iomodels.feature_product(1) if d["notes"] != "structured"]   # SBML notes are plain text
    cases = []
    for d in models:
        for t in TRANSPORTS:
            cases.append((d, t, "default"))
        # without id replacement: every model all of whose identifiers are valid SBML SIds as they stand
        if all(re.match(r"^[A-Za-z_][A-Za-z0-9_]*$", d[f]) for f in ("met_id", "rxn_id", "gene_id", "group_id")):
            cases.append((d, "path", "none"))
    pair_feats = ("bounds", "objective", "rule", "gene_id", "met_id", "rxn_id", "groups", "group_id", "annotation", "notes")
    for d in iomodels.feature_product(2, only=pair_feats):
        if len(iomodels.describe(d)) == 2 and d["notes"] != "structured":
            cases.append((d, "path", "default"))
    if ctx.thorough:
        for d in iomodels.feature_product(3, only=("bounds", "objective", "rule", "groups", "annotation", "names")):
            if len(iomodels.describe(d)) == 3:
                cases.append((d, "string", "default"))
    for cfg in ((-50, 50), (-500, 500), (-1e6, 1e6)):
        for b in ("config_default", (0, 1000), (-1000, 1000), (0, cfg[1]), (cfg[0], 0)):
            for obj in ("one", "min"):
                dd = dict(iomodels.DEFAULT)
                dd["bounds"] = b
                dd["objective"] = obj
                cases.append((dd, "path", "default", cfg))
    files = [("file", f) for f in sbml_files()]
    third = [("third", (f,)) for f in THIRD_PARTY] + [("third", p) for p in itertools.combinations(THIRD_PARTY, 2)]
    off = ctx.seed % len(cases)
    cases = cases[off:] + cases[:off]
    payloads = [{"cases": cases[i:i + 20]} for i in range(0, len(cases), 20)]
    payloads += [{"cases": [f]} for f in files] + [{"cases": third[i:i + 6]} for i in range(0, len(third), 6)]
    legacy = [("legacy", x) for x in LEGACY]
    payloads += [{"cases": legacy[i:i + 6]} for i in range(0, len(legacy), 6)]
    from .. import bench
    from ..benchsearch import _l

    bench_ops = [None] + [o for o in bench.alphabet(ctx.tier) if o[0] not in ("enter", "exit", "exit_exc", "optimize",
                                                                           "slim_optimize", "tolerance")]
    bcases = [("bench", _l(o) if o is not None else None, "path") for o in bench_ops]
    payloads += [{"cases": bcases[i:i + 10]} for i in range(0, len(bcases), 10)]
    stats = {}
    with ctx.pool(timeout=2400) as pool:
        for i, status, r0 in pool.imap(payloads):
            r = ctx.collect(status, r0)
            if r is None:
                if status in ("abort", "timeout"):
                    for c in payloads[i]["cases"]:
                        (st1, res1), = pool.map([{"cases": [c]}])
                        r1 = ctx.collect(st1, res1)
                        if r1 is None and st1 in ("abort", "timeout"):
                            if c[0] == "bench":
                                ctx.violation({"source": "bench", "problem": "process " + st1}, {"bench": c[1], "transport": c[2]}, st1)
                            elif c[0] in ("file", "third"):
                                ctx.violation({"source": c[0], "problem": "process " + st1}, {c[0]: c[1]}, st1)
                            else:
                                s = sig_of(c[0], c[1], c[2], "process " + st1 + " (GLPK abort or hang)")
                                ctx.violation(s, {"features": _jl(c[0]), "transport": c[1], "f_replace": c[2]}, st1)
                        elif r1:
                            for kk, v in r1["stats"].items():
                                stats[kk] = stats.get(kk, 0) + v
                continue
            for kk, v in r["stats"].items():
                stats[kk] = stats.get(kk, 0) + v
    ctx.cov.update({
        "states": len(models), "transitions": stats.get("evaluations", 0),
        "traces_validated_against_impl": stats.get("evaluations", 0),
        "evaluations": stats.get("evaluations", 0),
        "distinct_nontrivial": len({str(c[0]) for c in cases if iomodels.describe(c[0])}) + len(files) + len(third),
        "rule": "feature-product models (<=1 feature off default x {path, handle, string}; all pairs over 10 features via "
                "path; f_replace={} for SBML-safe ids) + %d shipped SBML files + third-party shapes (%d single, all pairs) "
                "derived with libsbml; oracles: validator, content equality to 15 digits, idempotence, independent libsbml "
                "extraction with log capture" % (len(files), len(THIRD_PARTY)),
        "exhaustive": True, "family_cases": len(cases), "bench_corpus_states": len(bcases), "files": len(files), "third_party_documents": len(third), "legacy_documents": len(legacy), "stats": stats,
    })
    ctx.sample({"features_off_default": iomodels.describe(models[len(models) // 2]), "transport": "path"})
    ctx.sample({"third_party": list(third[3][1])})
    ctx.assumptions += ["libsbml reader/validator trusted", "files rejected by cobra's validator are counted, not judged"]
