"""C04 - FBA returns a true optimum, or a true verdict that none exists.

Bounded exhaustive family F x objectives x directions x interfaces; oracle = exact rational LP
plus a solver-independent dual certificate computed from the reported shadow prices."""
import math

from .. import exactlp, families

PROPERTY = "C04"
LEVEL = "model_checking"
TOL = 1e-6


def params(tier):
    if tier == "quick":
        return dict(nm=3, nr=3, K=(-1, 0, 1), d=1)
    return dict(nm=3, nr=4, K=(-1, 0, 1), d=1)


def thorough_passes():
    """(params, net filter) passes of the thorough tier: deeper bound deviations on small nets, larger nets with one
    deviation, and coefficient 2 on small nets (the full product F(3, <=4, {-1,0,1,2}, d<=2) has ~10^9 members)."""
    return [(dict(nm=3, nr=3, K=(-1, 0, 1), d=2), None),
            (dict(nm=3, nr=4, K=(-1, 0, 1), d=1), lambda n: len(n) == 4),
            (dict(nm=3, nr=3, K=(-1, 0, 1, 2), d=1), lambda n: any(abs(x) == 2 for c in n for x in c))]


def check_model(net, bounds, interface, stats, rich=False, user_first=False, edited=False):
    """All objective/direction cases for one (network, bounds). Returns list of (sig, case, detail)."""
    import numpy as np
    from cobra.exceptions import OPTLANG_TO_EXCEPTIONS_DICT, OptimizationError

    mets, rxns = families.as_data(net, bounds)
    fba = exactlp.FBA(mets, rxns)
    ids = [r[0] for r in rxns]
    if edited:
        # the same model reached through edits instead of construction: every reaction is first written backwards
        # (mirrored bounds) and turned round inside the model with `reaction *= -1`; then all reactions are removed
        # inside a context that is rolled back
        model = families.build_model(mets, rxns, interface, flip=set(ids))
        for r in list(model.reactions):
            r *= -1
        with model:
            model.remove_reactions(list(model.reactions))
    else:
        model = families.build_model(mets, rxns, interface, user_first=user_first)
    out = []
    S = np.array([[r[1].get(m, 0) for r in rxns] for m in mets], dtype=float)
    lbs = np.array([r[2] for r in rxns], dtype=float)
    ubs = np.array([r[3] for r in rxns], dtype=float)
    for k, (obj, direction) in enumerate(families.objectives(ids, rich)):
        case = {"net": [list(c) for c in net], "bounds": [[_j(a), _j(b)] for a, b in bounds], "interface": interface,
                "objective": obj, "direction": direction, "user_first": user_first, "edited": edited}

        def bad(check, detail, **extra):
            s = {"check": check, "interface": interface, "direction": direction, "exact": st}
            if user_first:
                s["user_constraint_first"] = True
            if edited:
                s["origin"] = "edited"
            s.update(extra)
            out.append((s, case, f"{detail}\nmodel: {rxns}\nobjective {obj} {direction}"))

        st, z, _ = fba.optimum(objective=obj, direction=direction)
        stats["evaluations"] = stats.get("evaluations", 0) + 1
        stats["exact:" + st] = stats.get("exact:" + st, 0) + 1
        try:
            if k % 2:
                # direction first, objective second (assigning an objective must keep the direction)
                model.objective_direction = direction
                model.objective = {model.reactions.get_by_id(r): c for r, c in obj.items()}
            else:
                model.objective = {model.reactions.get_by_id(r): c for r, c in obj.items()}
                model.objective_direction = direction
            if model.objective_direction != direction:
                bad("objective direction is not the one that was set", f"{model.objective_direction} vs {direction}")
            sol = model.optimize()
        except Exception as exc:
            bad("optimize raised", repr(exc))
            continue
        c = np.array([obj.get(r, 0) for r in ids], dtype=float)
        if st != exactlp.OPT:
            if sol.status == "optimal":
                bad("status optimal but the true problem has no optimum", f"reported objective {sol.objective_value}")
            # slim_optimize contract
            try:
                v = model.slim_optimize()
                if not (isinstance(v, float) and math.isnan(v)):
                    bad("slim_optimize did not return NaN for a problem without optimum", repr(v))
                for ev in (-7.5, 0.0):
                    v = model.slim_optimize(error_value=ev)
                    if v != ev or isinstance(v, bool):
                        bad("slim_optimize did not return the caller's error value", repr(v))
            except Exception as exc:
                bad("slim_optimize raised although an error value was given", repr(exc))
            try:
                model.slim_optimize(error_value=None)
                bad("slim_optimize(error_value=None) did not raise", "")
            except OptimizationError as exc:
                want = OPTLANG_TO_EXCEPTIONS_DICT.get(model.solver.status, OptimizationError)
                if not isinstance(exc, want):
                    bad("slim_optimize raised the wrong exception class", f"{type(exc).__name__} for {model.solver.status}")
            except Exception as exc:
                bad("slim_optimize raised a non-optimisation exception", repr(exc))
            try:
                model.optimize(raise_error=True)
                bad("optimize(raise_error=True) did not raise", "")
            except OptimizationError:
                pass
            except Exception as exc:
                bad("optimize(raise_error=True) raised a non-optimisation exception", repr(exc))
            continue
        zf = float(z)
        if zf != 0:
            stats["nontrivial"] = stats.get("nontrivial", 0) + 1
        if sol.status != "optimal":
            bad("status not optimal but an optimum exists", f"status {sol.status}, true optimum {z}")
            continue
        if abs(sol.objective_value - zf) > TOL * max(1, abs(zf)):
            bad("objective value differs from the true optimum", f"{sol.objective_value} vs {z}")
        v = np.array([sol.fluxes[r] for r in ids])
        if np.max(np.abs(S @ v), initial=0) > TOL * (1 + np.abs(S).sum()):
            bad("fluxes violate steady state", f"S v = {S @ v}")
        if np.any(v < lbs - TOL) or np.any(v > ubs + TOL):
            bad("fluxes violate bounds", f"v = {v}")
        if abs(float(c @ v) - sol.objective_value) > TOL * max(1, abs(zf)):
            bad("objective value differs from objective at the fluxes", f"{sol.objective_value} vs {c @ v}")
        y = np.array([sol.shadow_prices[m] for m in mets])
        d = c - S.T @ y
        sgn = 1 if direction == "max" else -1
        for j, rid in enumerate(ids):
            if sgn * d[j] > TOL and abs(v[j] - ubs[j]) > TOL:
                bad("shadow prices are not a dual certificate", f"{rid}: c-S'y = {d[j]} but flux {v[j]} not at upper bound {ubs[j]}; y={y}")
                break
            if sgn * d[j] < -TOL and abs(v[j] - lbs[j]) > TOL:
                bad("shadow prices are not a dual certificate", f"{rid}: c-S'y = {d[j]} but flux {v[j]} not at lower bound {lbs[j]}; y={y}")
                break
        rc = np.array([sol.reduced_costs[r] for r in ids])
        if np.max(np.abs(rc - d), initial=0) > TOL * max(1, np.max(np.abs(d), initial=0)):
            ratio = "twice" if np.max(np.abs(rc - 2 * d), initial=0) <= TOL * max(1, np.max(np.abs(d), initial=0)) else "other"
            bad("reduced costs differ from c - S'y", f"reduced costs {rc} vs c-S'y {d} (y={y})", ratio=ratio)
        # accessors (most recent solution is still this one)
        try:
            for j, rid in enumerate(ids):
                r = model.reactions.get_by_id(rid)
                if abs(r.flux - v[j]) > 1e-9 or abs(r.reduced_cost - rc[j]) > 1e-9:
                    bad("reaction accessor differs from the Solution", f"{rid}: flux {r.flux} vs {v[j]}; rc {r.reduced_cost} vs {rc[j]}")
                    break
            for i, mid in enumerate(mets):
                if abs(model.metabolites.get_by_id(mid).shadow_price - y[i]) > 1e-9:
                    bad("metabolite accessor differs from the Solution", mid)
                    break
        except Exception as exc:
            bad("accessor raised", repr(exc))
        sv = model.slim_optimize()
        if not (abs(sv - zf) <= TOL * max(1, abs(zf))):
            bad("slim_optimize differs from the true optimum", f"{sv} vs {z}")
        # snapshot property (once per model per few objectives: cheap)
        if k % 4 == 0 and ids:
            snap = (sol.status, sol.objective_value, sol.fluxes.copy(), sol.reduced_costs.copy(), sol.shadow_prices.copy())
            r0 = model.reactions.get_by_id(ids[0])
            old = r0.bounds
            try:
                r0.bounds = (0, 0) if old != (0, 0) else (0, 1)
                model.optimize()
                model.objective = {r0: 1}
                model.optimize()
            finally:
                r0.bounds = old
            if not (snap[0] == sol.status and snap[1] == sol.objective_value and snap[2].equals(sol.fluxes)
                    and snap[3].equals(sol.reduced_costs) and snap[4].equals(sol.shadow_prices)):
                bad("Solution changed after later edits/optimisations", "")
    return out


def _j(x):
    return "inf" if x == float("inf") else "-inf" if x == float("-inf") else x


def _u(x):
    return float("inf") if x == "inf" else float("-inf") if x == "-inf" else x


def run_task(payload):
    P = payload["params"]
    nets = payload["nets"]
    stats = {}
    violations = []
    for net in nets:
        net = tuple(tuple(c) for c in net)
        for bounds in families.bound_assignments(net, P["d"]):
            stats["models"] = stats.get("models", 0) + 1
            for interface in payload["interfaces"]:
                violations.extend(check_model(net, bounds, interface, stats, rich=payload.get("rich", False)))
            if stats["models"] % 4 == 0:
                # the same model with a user variable/constraint added before any metabolite or reaction
                violations.extend(check_model(net, bounds, "glpk", stats, rich=False, user_first=True))
            if stats["models"] % 4 == 2 or payload.get("rich", False):
                violations.extend(check_model(net, bounds, "glpk", stats, rich=False, edited=True))
    return {"violations": violations[:200], "stats": stats, "n_violations": len(violations)}


def replay(case):
    net = tuple(tuple(c) for c in case["net"])
    bounds = tuple((_u(a), _u(b)) for a, b in case["bounds"])
    stats = {}
    out = check_model(net, bounds, case["interface"], stats, rich=True, user_first=case.get("user_first", False),
                      edited=case.get("edited", False))
    return [{"sig": s, "detail": d} for s, c, d in out
            if c["objective"] == case["objective"] and c["direction"] == case["direction"]]


def explore(ctx):
    P = params(ctx.tier)
    n_self = exactlp.selftest(limit=4000)
    passes = [(P, None)] if ctx.tier == "quick" else thorough_passes()
    payloads = []
    nets = []
    for PP, flt in passes:
        ns = [n for n in families.networks(PP["nm"], PP["nr"], PP["K"]) if flt is None or flt(n)]
        off = ctx.seed % len(ns)
        ns = ns[off:] + ns[:off]
        nets += ns
        chunk = 4 if ctx.tier == "quick" else 1
        payloads += [{"params": PP, "nets": ns[i:i + chunk], "interfaces": ["glpk", "glpk_exact"], "rich": ctx.thorough}
                     for i in range(0, len(ns), chunk)]
    stats = {}
    with ctx.pool(timeout=1800) as pool:
        for i, status, res in pool.imap(payloads):
            r = ctx.collect(status, res)
            if r is None:
                if status in ("abort", "timeout"):
                    ctx.violation({"check": "worker " + status, "interface": "", "direction": "", "exact": ""},
                                  {"nets": payloads[i]["nets"]}, status)
                continue
            for k, v in r["stats"].items():
                stats[k] = stats.get(k, 0) + v
    ctx.cov.update({
        "states": stats.get("models", 0), "transitions": stats.get("evaluations", 0),
        "traces_validated_against_impl": stats.get("evaluations", 0),
        "evaluations": stats.get("evaluations", 0), "distinct_nontrivial": stats.get("nontrivial", 0),
        "rule": "family F(nm=%(nm)d, nr<=%(nr)d, K=%(K)s, bounds menu of 10, <=%(d)d deviations) reduced under "
                "metabolite relabelling, x objective menu (singles +-1, weighted pairs, empty) x max/min x "
                "{glpk, glpk_exact}; every case solved by cobrapy and by the exact rational simplex; non-trivial = "
                "optimum exists and is non-zero" % P,
        "exhaustive": True, "networks": len(nets), "networks_raw": families.raw_network_count(P["nm"], P["nr"], P["K"]),
        "models": stats.get("models", 0), "exact_status_counts": {k: v for k, v in stats.items() if k.startswith("exact:")},
        "exactlp_selftest_lps": n_self, "bound_completed": [dict(p, K=list(p["K"])) for p, _ in passes],
    })
    ctx.sample({"net": [list(c) for c in nets[0]], "bounds": "default + <=%d deviations" % P["d"]})
    ctx.sample({"net": [list(c) for c in nets[len(nets) // 2]]})
    ctx.assumptions += ["exact oracle: mc/exactlp.py (validated against brute-force vertex enumeration at run start)",
                        "tolerance 1e-6 relative; data values limited to the menus"]
