"""C17 - loopless methods remove cycles without changing what matters.

Family F restricted to members with an internal cycle x starting solutions (the model's own
FBA solution and optimal vertices with the cycle loaded); oracle = exact LP "no further
cycle removable" and brute-force sign-pattern enumeration for add_loopless."""
import warnings
from fractions import Fraction as F

from .. import exactlp, families, oracles
from ..exactlp import OPT, fr, solve
from .c04 import _j, _u

PROPERTY = "C17"
LEVEL = "model_checking"
TOL = 1e-6
MENU = [(0, 10), (-10, 10), (0, 0), (2, 10), (-10, -2), (-10, 0), (3, 3)]


def params(tier):
    if tier == "quick":
        return dict(nm=3, nr=4, K=(-1, 0, 1), d=1, menu=MENU[:5], directions=("max",))
    return dict(nm=3, nr=4, K=(-1, 0, 1), d=1, menu=MENU, directions=("max", "min"))


def has_internal_cycle(net):
    cols = [c for c in net if not families.is_boundary(c)]
    if len(cols) < 2:
        return False
    rows = [[F(c[i]) for c in cols] for i in range(len(net[0]))]
    return exactlp._rank(rows) < len(cols)


def cycle_dimension(net):
    cols = [c for c in net if not families.is_boundary(c)]
    if not cols:
        return 0
    rows = [[F(c[i]) for c in cols] for i in range(len(net[0]))]
    return len(cols) - exactlp._rank(rows)


def start_vectors(fba, z):
    """Optimal solutions with internal fluxes pushed to their extremes (cycle loaded)."""
    lp = fba.lp()
    lp.row(fba.cvec(), z, z)
    out = []
    seen = set()
    for rid in oracles.internal_ids(fba):
        j = fba.idx[rid]
        for sense in ("max", "min"):
            st, _, x = solve(lp, {j: 1}, sense)
            if st == OPT:
                key = tuple(x)
                if key not in seen:
                    seen.add(key)
                    out.append(x)
    return out


def removable_minimum(fba, w, z):
    """Exact min of sum|x| over internal reactions s.t. S x = 0, bounds, boundary fluxes and objective as in w,
    same direction and no larger magnitude than w."""
    lp = fba.lp()
    for j, (rid, st, lb, ub) in enumerate(fba.rxns):
        wj = fr(w[j])
        if len(st) == 1:
            lp.lb[j] = lp.ub[j] = wj
        elif wj >= 0:
            lp.lb[j] = max(F(0), lp.lb[j]) if lp.lb[j] is not None else F(0)
            lp.ub[j] = min(wj, lp.ub[j]) if lp.ub[j] is not None else wj
        else:
            lp.ub[j] = min(F(0), lp.ub[j]) if lp.ub[j] is not None else F(0)
            lp.lb[j] = max(wj, lp.lb[j]) if lp.lb[j] is not None else wj
    lp.row(fba.cvec(), z, z)
    ints = [fba.idx[r] for r in oracles.internal_ids(fba)]
    cost = {j: (1 if fr(w[j]) >= 0 else -1) for j in ints}
    return solve(lp, cost, "min")


def check_model(net, bounds, P, stats, origin=None):
    out = _check_model(net, bounds, P, stats, origin)
    if origin:
        for sg, cs, _ in out:
            sg["origin"] = origin
            cs["origin"] = origin
    return out


def _check_model(net, bounds, P, stats, origin=None):
    import numpy as np
    from cobra.flux_analysis.loopless import add_loopless, loopless_solution

    mets, rxns = families.as_data(net, bounds)
    ids = [r[0] for r in rxns]
    base = exactlp.FBA(mets, rxns)
    ok, _ = exactlp.feasible(base.lp())
    if not ok:
        return []
    out = []
    S = np.array([[r[1].get(m, 0) for r in rxns] for m in mets], dtype=float)
    lbs = np.array([r[2] for r in rxns], dtype=float)
    ubs = np.array([r[3] for r in rxns], dtype=float)
    bidx = [j for j, r in enumerate(rxns) if len(r[1]) == 1]
    iidx = [j for j, r in enumerate(rxns) if len(r[1]) > 1]
    patterns = oracles.loopfree_patterns(base) if len(iidx) <= 4 else None
    model = families.build_model(mets, rxns)
    for oid in ids:
        for direction in P["directions"]:
            obj = {oid: 1}
            fba = exactlp.FBA(mets, rxns, obj, direction)
            st, z, x0 = fba.optimum()
            if st != OPT:
                continue
            if origin:
                model = families.build_model(mets, rxns)
            model.objective = {model.reactions.get_by_id(oid): 1}
            model.objective_direction = direction
            if origin:
                from .. import origins

                try:
                    model = origins.derive(model, origin)
                except origins.OriginUnavailable:
                    stats["origin_unavailable"] = stats.get("origin_unavailable", 0) + 1
                    continue
            c = np.array([obj.get(r, 0) for r in ids], dtype=float)
            starts = [("own", None)] + [("vertex%d" % k, x) for k, x in enumerate(start_vectors(fba, z))]
            starts += [(n + "_reordered", x) for n, x in starts[1:2]]
            for sname, w in starts:
                case = {"net": [list(x) for x in net], "bounds": [[_j(a), _j(b)] for a, b in bounds],
                        "objective": oid, "direction": direction, "start": sname, "fn": "loopless_solution"}
                stats["evaluations"] = stats.get("evaluations", 0) + 1

                def bad(check, detail):
                    out.append(({"fn": case["fn"], "check": check, "direction": direction,
                                 "start": "own" if sname == "own" else "vertex"}, dict(case),
                                f"{detail}\nmodel {rxns}\ncase {case}"))

                try:
                    with warnings.catch_warnings():
                        warnings.simplefilter("ignore")
                        if w is None:
                            wsol = model.optimize()
                            wv = np.array([wsol.fluxes[r] for r in ids])
                            sol = loopless_solution(model)
                        else:
                            wv = np.array([float(v) for v in w])
                            fl = {r: float(v) for r, v in zip(ids, w)}
                            if sname.endswith("_reordered"):
                                # the same starting vector listed in another reaction order
                                fl = dict(reversed(list(fl.items())))
                            sol = loopless_solution(model, fluxes=fl)
                except Exception as exc:
                    bad("raised", repr(exc))
                    continue
                if sol is None or sol.status != "optimal":
                    bad("no solution for an optimal starting vector", str(getattr(sol, "status", None)))
                    continue
                v = np.array([sol.fluxes[r] for r in ids])
                if np.max(np.abs(S @ v), initial=0) > TOL * (1 + np.abs(S).sum()):
                    bad("steady state violated", str(v))
                    continue
                if np.any(v < lbs - TOL) or np.any(v > ubs + TOL):
                    bad("bounds violated", str(v))
                    continue
                zf = float(z)
                if abs(float(c @ v) - zf) > TOL * max(1, abs(zf)) or abs(sol.objective_value - zf) > TOL * max(1, abs(zf)):
                    bad("objective value changed", f"{c @ v} / reported {sol.objective_value} vs {z}")
                if bidx and np.max(np.abs(v[bidx] - wv[bidx])) > TOL * max(1, np.max(np.abs(wv))):
                    bad("boundary fluxes changed", f"{v} vs start {wv}")
                if np.any(v * wv < -TOL):
                    bad("a reaction reversed direction", f"{v} vs start {wv}")
                if np.any(np.abs(v) > np.abs(wv) + TOL):
                    bad("a flux grew in magnitude", f"{v} vs start {wv}")
                stm, m, _ = removable_minimum(fba, [fr(float(q)) for q in wv], z)
                if stm == OPT:
                    tot = float(np.abs(v[iidx]).sum()) if iidx else 0.0
                    if abs(float(np.abs(wv[iidx]).sum()) - float(m)) > TOL:
                        stats["nontrivial"] = stats.get("nontrivial", 0) + 1
                    if tot > float(m) + TOL * max(1, tot):
                        bad("a cycle can still be removed", f"sum|v_int| = {tot}, removable down to {m}; v={v} start={wv}")
            # add_loopless
            if patterns is not None:
                case = {"net": [list(x) for x in net], "bounds": [[_j(a), _j(b)] for a, b in bounds],
                        "objective": oid, "direction": direction, "fn": "add_loopless"}
                stats["evaluations"] = stats.get("evaluations", 0) + 1
                stl, zl = oracles.loopless_optimum(fba, patterns)
                try:
                    with model:
                        with warnings.catch_warnings():
                            warnings.simplefilter("ignore")
                            add_loopless(model)
                            sol = model.optimize()
                            # the loop-free model stays a model: bounds edited afterwards (within the largest bound
                            # magnitude the model had, which is what the formulation's big-M is sized for) apply
                            edited = []
                            maxb = max(max(abs(r[2]), abs(r[3])) for r in rxns)
                            for j in iidx:
                                for alt in ((-maxb, maxb), (0, maxb), (-maxb, 0)):
                                    if alt == (rxns[j][2], rxns[j][3]) or maxb == 0:
                                        continue
                                    with model:
                                        model.reactions.get_by_id(ids[j]).bounds = alt
                                        s2 = model.optimize()
                                        edited.append((j, alt, s2.status, s2.objective_value if s2.status == "optimal" else None))
                except Exception as exc:
                    out.append(({"fn": "add_loopless", "check": "raised", "direction": direction}, case,
                                f"{exc!r}\nmodel {rxns}"))
                    continue
                for j, alt, st2, z2 in edited:
                    stats["evaluations"] = stats.get("evaluations", 0) + 1
                    rx2 = [(rid, stc, alt[0], alt[1]) if k == j else (rid, stc, lb, ub) for k, (rid, stc, lb, ub) in enumerate(rxns)]
                    fba2 = exactlp.FBA(mets, rx2, obj, direction)
                    stl2, zl2 = oracles.loopless_optimum(fba2, patterns)
                    case2 = dict(case, edit=[ids[j], list(alt)])
                    if (stl2 == OPT) != (st2 == "optimal"):
                        out.append(({"fn": "add_loopless", "check": "status after a later bounds edit differs from the loop-free model",
                                     "direction": direction}, case2, f"{ids[j]}.bounds={alt}: status {st2}, oracle {stl2} {zl2}\nmodel {rxns}"))
                    elif stl2 == OPT and abs(z2 - float(zl2)) > TOL * max(1, abs(float(zl2))):
                        out.append(({"fn": "add_loopless", "check": "optimum after a later bounds edit differs from the loop-free optimum",
                                     "direction": direction}, case2, f"{ids[j]}.bounds={alt}: {z2} vs {zl2}\nmodel {rxns}"))
                if stl != OPT:
                    if sol.status == "optimal":
                        out.append(({"fn": "add_loopless", "check": "optimal although no loop-free distribution exists",
                                     "direction": direction}, case, f"model {rxns}"))
                    continue
                if sol.status != "optimal":
                    out.append(({"fn": "add_loopless", "check": "not optimal although a loop-free optimum exists",
                                 "direction": direction}, case, f"status {sol.status}, loop-free optimum {zl}\nmodel {rxns}"))
                    continue
                if abs(sol.objective_value - float(zl)) > TOL * max(1, abs(float(zl))):
                    out.append(({"fn": "add_loopless", "check": "optimum differs from the loop-free optimum",
                                 "direction": direction}, case,
                                f"{sol.objective_value} vs {zl} (plain optimum {z})\nmodel {rxns}"))
                if float(zl) != float(z):
                    stats["nontrivial"] = stats.get("nontrivial", 0) + 1
                v = [sol.fluxes[r] for r in ids]
                pat = {ids[j]: (1 if v[j] > 1e-7 else -1 if v[j] < -1e-7 else 0) for j in iidx}
                if oracles.has_conforming_cycle(fba, pat):
                    out.append(({"fn": "add_loopless", "check": "reported solution contains an internal cycle",
                                 "direction": direction}, case, f"v={v}\nmodel {rxns}"))
    return out


def run_task(payload):
    P = payload["params"]
    stats, violations = {}, []
    for net in payload["nets"]:
        net = tuple(tuple(c) for c in net)
        for bounds in families.bound_assignments(net, P["d"], P["menu"]):
            if payload.get("origins"):
                from .. import origins

                for origin in origins.ORIGINS:
                    stats["models_from_origins"] = stats.get("models_from_origins", 0) + 1
                    violations.extend(check_model(net, bounds, P, stats, origin))
                continue
            stats["models"] = stats.get("models", 0) + 1
            violations.extend(check_model(net, bounds, P, stats))
    return {"violations": violations[:300], "stats": stats}


def replay(case):
    import json

    net = tuple(tuple(c) for c in case["net"])
    bounds = tuple((_u(a), _u(b)) for a, b in case["bounds"])
    out = check_model(net, bounds, params("thorough"), {}, case.get("origin"))
    return [{"sig": s, "detail": d} for s, c, d in out if json.loads(json.dumps(c)) == case]


def explore(ctx):
    P = params(ctx.tier)
    n_self = exactlp.selftest(limit=3000)
    nets = [n for n in families.networks(P["nm"], P["nr"], P["K"]) if has_internal_cycle(n)]
    if ctx.tier == "quick":
        nets = [n for n in nets if len(n) <= 3 or sum(1 for c in n if families.is_boundary(c)) >= 1
                or cycle_dimension(n) >= 2]
    off = ctx.seed % len(nets)
    nets = nets[off:] + nets[:off]
    payloads = [{"params": P, "nets": nets[i:i + 1]} for i in range(0, len(nets), 1)]
    # origins: the cyclic members with at most three reactions (thorough: all of the quick set), default bounds, reached by
    # every other public route (mc/origins.py)
    from .. import origins

    PO = dict(P, d=0)
    no = [n for n in nets if len(n) <= 3] if ctx.tier == "quick" else [n for n in nets if len(n) <= 4][:200]
    payloads += [{"params": PO, "nets": no[i:i + 1], "origins": True} for i in range(0, len(no), 1)]
    stats = {}
    with ctx.pool(timeout=3000) as pool:
        for i, status, res in pool.imap(payloads):
            r = ctx.collect(status, res)
            if r is None:
                if status in ("abort", "timeout"):
                    ctx.violation({"fn": "", "check": "worker " + status}, {"nets": payloads[i]["nets"]}, status)
                continue
            for k, v in r["stats"].items():
                stats[k] = stats.get(k, 0) + v
    ctx.cov.update({
        "states": stats.get("models", 0), "transitions": stats.get("evaluations", 0),
        "traces_validated_against_impl": stats.get("evaluations", 0),
        "evaluations": stats.get("evaluations", 0), "distinct_nontrivial": stats.get("nontrivial", 0),
        "rule": "members of F(nm=%d, nr<=%d, <=%d deviations over %d finite bounds) whose internal reactions have a "
                "non-trivial null space x every single-reaction objective x directions %s x starting vectors (own FBA "
                "solution, every optimal vertex with an internal flux at its extreme); non-trivial = the start contains a "
                "removable cycle / the loop-free optimum differs from the plain optimum"
                % (P["nm"], P["nr"], P["d"], len(P["menu"]), P["directions"]),
        "exhaustive": True, "networks_with_cycle": len(nets), "models": stats.get("models", 0),
        "exactlp_selftest_lps": n_self,
        "origins_pass": "%d cyclic networks x %d origins (%s): %d models; route itself failed for %d" % (
            len(no), len(origins.ORIGINS), ", ".join(origins.ORIGINS), stats.get("models_from_origins", 0),
            stats.get("origin_unavailable", 0)),
    })
    ctx.sample({"net": [list(c) for c in nets[0]]})
    ctx.assumptions += ["starting vectors are optimal solutions of the same model (documented requirement)",
                        "finite bounds (add_loopless uses the largest bound as big-M)"]
