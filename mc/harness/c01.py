"""C01 - the solver always holds exactly the model's flux-balance problem (E1 BFS on the bench)."""
from .. import benchsearch

PROPERTY = "C01"
LEVEL = "model_checking"
PROPS = ("C01",)


def run_task(payload):
    return benchsearch.run_task(payload, PROPS)


def replay(case):
    return benchsearch.replay_case(case, PROPS)


def explore(ctx):
    benchsearch.explore(ctx, PROPS)
