"""C15 - DictList stays coherent under every list operation.

Closure-mode explicit-state search: all reachable states of a DictList over a small object
universe under every operation instance (every in-range, negative and out-of-range index,
failing operations included), compared step by step with a plain Python list plus a
uniqueness rule (mc.ref_list semantics are inlined below: the reference *is* `list`).
"""
import copy
import itertools
import pickle

PROPERTY = "C15"
LEVEL = "model_checking"

IDS = {"a": "ia", "b": "ib", "c": "ic", "d": "id_", "e": "ie", "f": "if_", "a2": "ia"}


def universe_names(tier):
    return ["a", "b", "c", "d", "a2"] if tier == "quick" else ["a", "b", "c", "d", "e", "f", "a2"]


def make_universe(names):
    from cobra.core.object import Object

    return {n: Object(IDS[n], name=n) for n in names}


# ----------------------------------------------------------------------------------------
# operation menu

def _index_range(n):
    return list(range(-n - 2, n + 3))


def ops_for(state, names, tier):
    """All operation instances enabled in a state (tuple of names). Simplest first."""
    n = len(state)
    ops = []
    for x in names:
        ops.append(("append", x))
    ops.append(("pop",))
    for i in _index_range(n):
        ops.append(("pop", i))
        ops.append(("del", i))
    for x in names:
        ops.append(("remove", x))
    for i in ["ia", "ib", "zz"]:
        ops.append(("remove_id", i))
    for i in _index_range(n):
        for x in names:
            ops.append(("insert", i, x))
            ops.append(("set", i, x))
    singles = [(x,) for x in names]
    pairs = [p for p in itertools.product(names, repeat=2)]
    for xs in [()] + singles + pairs:
        ops.append(("extend", xs))
    for xs in singles[:2] + [("d", "a"), ("a", "a2"), ("d", "d"), ("c", "d")]:
        ops.append(("iadd", xs))
        ops.append(("union", xs))
    for x in names:
        ops.append(("add", x))
    for xs in singles + [p for p in pairs if p[0] != p[1]][:12] + [("a", "a")]:
        ops.append(("isub", xs))
    ops += [("sort",), ("sort_rev",), ("reverse",)]
    # slices
    bounds = [None] + list(range(-n - 1, n + 2))
    vals = [(), ("d",), ("a",), ("a2",), ("b",), ("c", "d"), ("d", "c"), ("d", "d"), ("a", "a2"),
            ("b", "a")]
    if tier != "quick":
        vals += [("e",), ("e", "d"), ("c", "d", "e")]
    for s in bounds:
        for t in bounds:
            ops.append(("delslice", s, t, None))
            for v in vals:
                ops.append(("setslice", s, t, None, v))
    small = [None, 0, 1, -1, -2, n]
    for step in (2, -1):
        for s in small:
            for t in small:
                ops.append(("delslice", s, t, step))
                for v in vals:
                    ops.append(("setslice", s, t, step, v))
    # handle replacements
    ops += [("h_copy",), ("h_pickle",), ("h_ctor",), ("h_query_all",), ("h_mask",)]
    for s in (None, 1, -1):
        for t in (None, -1, n):
            ops.append(("h_slice", s, t))
    for x in names:
        ops.append(("h_plus", x))
        ops.append(("h_minus", x))
    return ops


def arg_class(op, state):
    """Normalised argument class for violation signatures (no concrete ids)."""
    n = len(state)
    kind = op[0]
    out = {"op": kind}

    def icls(i):
        if i is None:
            return "none"
        if 0 <= i < n:
            return "in_range"
        if -n <= i < 0:
            return "negative_in_range"
        if i == n:
            return "len"
        return "out_high" if i > n else "out_low"

    def vcls(xs):
        ids = [IDS[x] for x in xs]
        present = {IDS[s] for s in state}
        if len(set(ids)) < len(ids):
            return "dup_internal"
        if any(i in present for i in ids):
            return "id_present"
        return "fresh" if ids else "empty"

    if kind in ("pop", "del") and len(op) > 1:
        out["index"] = icls(op[1])
    elif kind in ("insert", "set"):
        out["index"] = icls(op[1])
        out["value"] = vcls([op[2]])
    elif kind in ("append", "add", "remove", "h_plus", "h_minus"):
        out["value"] = vcls([op[1]])
    elif kind in ("extend", "iadd", "union", "isub"):
        out["value"] = vcls(op[1])
    elif kind in ("setslice",):
        out["step"] = op[3]
        out["value"] = vcls(op[4])
    elif kind == "delslice":
        out["step"] = op[3]
    return out


# ----------------------------------------------------------------------------------------
# reference: a plain list of names + uniqueness of ids

class RefRaise(Exception):
    pass


def ref_step(state, op):
    """-> ("ok", new_state) | ("raise",) | ("may", new_state)   (may: raising or succeeding both fine)"""
    l = list(state)
    kind = op[0]
    may = False
    try:
        if kind in ("append", "add"):
            l.append(op[1])
        elif kind == "pop":
            l.pop(*op[1:])
        elif kind == "del":
            del l[op[1]]
        elif kind == "remove":
            if op[1] not in l:
                # another object with the same id is not "the" element
                raise RefRaise()
            l.remove(op[1])
        elif kind == "remove_id":
            hit = [x for x in l if IDS[x] == op[1]]
            if not hit:
                raise RefRaise()
            l.remove(hit[0])
        elif kind == "insert":
            l.insert(op[1], op[2])
        elif kind == "set":
            l[op[1]] = op[2]
        elif kind in ("extend", "iadd"):
            l.extend(op[1])
        elif kind == "union":
            for x in op[1]:
                if IDS[x] not in {IDS[y] for y in l}:
                    l.append(x)
        elif kind == "isub":
            for x in op[1]:
                if x not in l:
                    raise RefRaise()
                l.remove(x)
        elif kind == "sort":
            l.sort(key=lambda x: IDS[x])
        elif kind == "sort_rev":
            l.sort(key=lambda x: IDS[x], reverse=True)
        elif kind == "reverse":
            l.reverse()
        elif kind == "delslice":
            del l[slice(op[1], op[2], op[3])]
        elif kind == "setslice":
            sl = slice(op[1], op[2], op[3])
            replaced = {IDS[x] for x in l[sl]}
            kept = {IDS[x] for x in l} - replaced
            l[sl] = list(op[4])
            # ids that collide only with elements the same assignment removes: the
            # documentation does not say whether that is a duplicate; either is accepted
            if any(IDS[x] in replaced and IDS[x] not in kept for x in op[4]):
                may = True
        elif kind in ("h_copy", "h_pickle", "h_ctor", "h_query_all"):
            pass
        elif kind == "h_mask":
            l = [x for j, x in enumerate(l) if j % 2 == 0]
        elif kind == "h_slice":
            l = l[slice(op[1], op[2])]
        elif kind == "h_plus":
            l = l + [op[1]]
        elif kind == "h_minus":
            if op[1] not in l:
                raise RefRaise()
            l.remove(op[1])
        else:
            raise AssertionError(op)
    except (IndexError, ValueError, RefRaise):
        return ("raise",)
    ids = [IDS[x] for x in l]
    if len(set(ids)) != len(ids):
        return ("raise",)
    if kind == "set" and not may:
        # replacing an element by another object with the same id
        i = op[1]
        if IDS[state[i]] == IDS[op[2]]:
            may = True
    return ("may" if may else "ok", tuple(l))


# ----------------------------------------------------------------------------------------
# implementation side

def apply_impl(dl, uni, op):
    """Apply op to the real DictList; returns the (possibly new) handle."""
    kind = op[0]
    if kind == "append":
        dl.append(uni[op[1]])
    elif kind == "add":
        dl.add(uni[op[1]])
    elif kind == "pop":
        dl.pop(*op[1:])
    elif kind == "del":
        del dl[op[1]]
    elif kind == "remove":
        dl.remove(uni[op[1]])
    elif kind == "remove_id":
        dl.remove(op[1])
    elif kind == "insert":
        dl.insert(op[1], uni[op[2]])
    elif kind == "set":
        dl[op[1]] = uni[op[2]]
    elif kind == "extend":
        dl.extend([uni[x] for x in op[1]])
    elif kind == "iadd":
        dl += [uni[x] for x in op[1]]
    elif kind == "union":
        dl.union([uni[x] for x in op[1]])
    elif kind == "isub":
        dl -= [uni[x] for x in op[1]]
    elif kind == "sort":
        dl.sort()
    elif kind == "sort_rev":
        dl.sort(reverse=True)
    elif kind == "reverse":
        dl.reverse()
    elif kind == "delslice":
        del dl[slice(op[1], op[2], op[3])]
    elif kind == "setslice":
        dl[slice(op[1], op[2], op[3])] = [uni[x] for x in op[4]]
    elif kind == "h_copy":
        dl = copy.copy(dl)
    elif kind == "h_pickle":
        dl = pickle.loads(pickle.dumps(dl))
        for el in dl:
            uni[el.name] = el
    elif kind == "h_ctor":
        dl = type(dl)(dl)
    elif kind == "h_query_all":
        dl = dl.query(lambda x: True)
    elif kind == "h_mask":
        if len(dl):
            dl = dl[[j % 2 == 0 for j in range(len(dl))]]
    elif kind == "h_slice":
        dl = dl[op[1]:op[2]]
    elif kind == "h_plus":
        dl = dl + [uni[op[1]]]
    elif kind == "h_minus":
        dl = dl - [uni[op[1]]]
    else:
        raise AssertionError(op)
    return dl


ALL_IDS = sorted(set(IDS.values())) + ["zz"]


def probe(dl, uni):
    """Observable state through the public API: content + what the id index answers.

    Returns (content names, problems list)."""
    problems = []
    content = [getattr(x, "name", "?") for x in list.__iter__(dl)]
    if len(dl) != len(content):
        problems.append(("len", len(dl), len(content)))
    pos = {}
    for j, x in enumerate(list.__iter__(dl)):
        pos.setdefault(x.id, []).append(j)
    for i, ps in pos.items():
        if len(ps) > 1:
            problems.append(("unique", i, ps))
    for i in ALL_IDS:
        present = i in pos
        try:
            if dl.has_id(i) != present:
                problems.append(("has_id", i, not present))
            if (i in dl) != present:
                problems.append(("contains_id", i, not present))
        except Exception as exc:
            problems.append(("membership_raised", i, type(exc).__name__))
        try:
            got = dl.index(i)
            if not present:
                problems.append(("index_of_absent", i, got))
            elif got != pos[i][0]:
                problems.append(("index_by_id", i, got, pos[i][0]))
        except ValueError:
            if present:
                problems.append(("index_by_id_raised", i))
        except Exception as exc:
            problems.append(("index_by_id_raised_other", i, type(exc).__name__))
        try:
            got = dl.get_by_id(i)
            if not present:
                problems.append(("get_by_id_of_absent", i))
            elif got is not list.__getitem__(dl, pos[i][0]):
                problems.append(("get_by_id", i, getattr(got, "name", repr(got))))
        except KeyError:
            if present:
                problems.append(("get_by_id_raised", i))
        except Exception as exc:
            problems.append(("get_by_id_raised_other", i, type(exc).__name__))
        if present and i.isidentifier():
            try:
                if getattr(dl, i) is not list.__getitem__(dl, pos[i][0]):
                    problems.append(("attr_access", i))
            except Exception as exc:
                problems.append(("attr_access_raised", i, type(exc).__name__))
    for j, x in enumerate(list.__iter__(dl)):
        try:
            if dl.index(x) != j:
                problems.append(("index_by_object", x.name, dl.index(x), j))
        except Exception as exc:
            problems.append(("index_by_object_raised", x.name, type(exc).__name__))
        try:
            if x not in dl:
                problems.append(("contains_object", x.name))
            if dl[j] is not x:
                problems.append(("getitem", j))
        except Exception as exc:
            problems.append(("contains_object_raised", x.name, type(exc).__name__))
    try:
        if [x.name for x in dl] != content:
            problems.append(("iter",))
        if dl.list_attr("name") != content:
            problems.append(("list_attr",))
        q = dl.query(lambda x: True)
        if [x.name for x in q] != content:
            problems.append(("query_all",))
        q = dl.query("^i[ab]$")
        if [x.name for x in q] != [c for c in content if IDS[c] in ("ia", "ib")]:
            problems.append(("query_regex",))
        q = dl.query("a", "name")
        if [x.name for x in q] != [c for c in content if "a" in c]:
            problems.append(("query_attr",))
        if content:
            got = dl.get_by_any([0, list.__getitem__(dl, len(content) - 1).id, list.__getitem__(dl, 0)])
            if [g.name for g in got] != [content[0], content[-1], content[0]]:
                problems.append(("get_by_any",))
    except Exception as exc:
        problems.append(("readonly_probe_raised", type(exc).__name__))
    d = getattr(dl, "_dict", None)
    if isinstance(d, dict):
        want = {x.id: j for j, x in enumerate(list.__iter__(dl))}
        if d != want:
            problems.append(("index_table", sorted(d.items(), key=repr), sorted(want.items())))
    return tuple(content), problems


def build(history, names):
    from cobra.core.dictlist import DictList

    uni = make_universe(names)
    dl = DictList()
    for op in history:
        try:
            dl = apply_impl(dl, uni, op)
        except Exception:
            pass
    return dl, uni


def check_transition(history, op, names):
    """Run one transition from a fresh build. Returns (key, expandable, violations, outcome)."""
    dl, uni = build(history, names)
    pre, pre_problems = probe(dl, uni)
    ref = ref_step(pre, op)
    raised = None
    try:
        dl2 = apply_impl(dl, uni, op)
    except Exception as exc:  # noqa
        raised = type(exc).__name__
        dl2 = dl
    post, problems = probe(dl2, uni)
    sig0 = arg_class(op, pre)
    viol = []
    case = {"history": [list(h) for h in history], "op": list(op), "names": names}

    def add(inv, detail):
        s = dict(sig0)
        s["invariant"] = inv
        s["impl"] = "raised" if raised else "returned"
        viol.append((s, case, f"pre={pre} op={op} ref={ref} impl_raised={raised} post={post} {detail}"))

    if pre_problems:
        # not reachable: violating post-states are never expanded
        add("pre_state_incoherent", str(pre_problems[:3]))
    if raised:
        if ref[0] == "ok":
            add("raised_but_reference_succeeds", "")
        if post != pre:
            add("raise_changed_list", "")
        if problems:
            add("raise_corrupted_index", str(problems[:3]))
    else:
        if ref[0] == "raise":
            add("returned_but_reference_raises", "")
        elif post != ref[1]:
            add("content_differs_from_list_semantics", f"expected={ref[1]}")
        if problems:
            add("incoherent", str(problems[:3]))
        if op[0].startswith("h_") and dl2 is not dl:
            # the old handle must be unaffected by creating the new one
            old, old_problems = probe(dl, uni) if op[0] != "h_pickle" else (pre, [])
            if old != pre or old_problems:
                add("source_of_new_handle_changed", str(old_problems[:3]))
    if not op[0].startswith("h_"):
        # handles derived from a list before it is edited (copy, constructor, slice, query) are lists of their own:
        # editing the source must not show in them, and editing a derived handle must not show in the source
        for direction in ("source_edited", "derived_edited"):
            dl_b, uni_b = build(history, names)
            derived = [("copy.copy", copy.copy(dl_b)), ("constructor", type(dl_b)(dl_b)), ("slice", dl_b[:]),
                       ("query", dl_b.query(lambda x: True))]
            if direction == "source_edited":
                try:
                    apply_impl(dl_b, uni_b, op)
                except Exception:
                    pass
                for hname, h in derived:
                    got, pr = probe(h, uni_b)
                    if got != pre or pr:
                        add("derived_handle_changed_by_editing_its_source", f"{hname}: {got} {pr[:2]}")
            else:
                for hname, h in derived[:2]:
                    try:
                        apply_impl(h, uni_b, op)
                    except Exception:
                        pass
                got, pr = probe(dl_b, uni_b)
                if got != pre or pr:
                    add("source_changed_by_editing_a_derived_handle", f"{got} {pr[:2]}")
    outcome = ("raise" if raised else "ok", ref[0])
    return (post if not viol else None), not viol, viol, outcome


def run_task(payload):
    names = payload["names"]
    tier = payload["tier"]
    succ_all = []
    violations = []
    stats = {}
    for hist in payload["histories"]:
        dl, uni = build(hist, names)
        state, _ = probe(dl, uni)
        succ = []
        for op in ops_for(state, names, tier):
            key, expandable, viol, outcome = check_transition(hist, op, names)
            violations.extend(viol)
            k = "outcome:%s/%s" % outcome
            stats[k] = stats.get(k, 0) + 1
            if outcome[0] == "raise":
                stats["failing_ops"] = stats.get("failing_ops", 0) + 1
            succ.append((op, key, expandable))
        succ_all.append(succ)
    return {"succ": succ_all, "violations": violations, "stats": stats}


def replay(case):
    key, expandable, viol, outcome = check_transition(
        [tuple(h) for h in case["history"]], _tup(case["op"]), case["names"])
    return [{"sig": s, "detail": d} for s, c, d in viol]


def _tup(op):
    return tuple(tuple(x) if isinstance(x, list) else x for x in op)


def explore(ctx):
    from ..explore import bfs

    names = universe_names(ctx.tier)
    with ctx.pool(timeout=300) as pool:
        res = bfs(ctx, pool, [((), ())], max_depth=None,
                  extra={"names": names, "tier": ctx.tier}, batch=4)
    seen = res["seen"]
    nontrivial = sum(1 for k in seen if len(k) >= 2)
    ctx.cov.update({
        "states": res["states"], "transitions": res["transitions"],
        "traces_validated_against_impl": res["transitions"],
        "evaluations": res["transitions"], "distinct_nontrivial": nontrivial,
        "rule": "closure of all DictList states over the object universe %s (a2 has the id of a) under "
                "every operation instance of ops_for(); state = tuple of object names; a state is "
                "non-trivial when it holds >= 2 elements; every transition is executed on the real "
                "DictList rebuilt from its history and compared with list semantics" % names,
        "exhaustive": bool(res["closed"]), "closed_fixpoint": bool(res["closed"]),
        "max_depth": res["max_depth"], "layers": res["layers"],
        "outcomes": {k: v for k, v in res["stats"].items()},
        "distinct_outcomes": len([k for k in res["stats"] if k.startswith("outcome:")]),
        "pruned_after_violation": len({str(v[1]) for v in ctx.violations}),
    })
    for k in sorted(seen, key=lambda s: (len(seen[s]), repr(s)))[-3:]:
        ctx.sample({"state": list(k), "history": [list(o) for o in seen[k]]})
    ctx.assumptions += [
        "reference semantics: Python list plus unique ids; a collision only with elements the same "
        "assignment replaces may raise or succeed",
        "object universe of %d objects; closure reached => all histories over this universe" % len(names),
    ]
