"""C14 - results do not depend on process count, scheduling or item order.

Choice-point DFS (deviation-bounded) over the schedules of a controlled process pool: which
worker takes which chunk and in which order finished chunks are delivered; real forked
workers in lock-step; every permutation of the requested item list; processes 1..3(4)."""
import itertools
import math
import warnings

from ..seams import vpool

PROPERTY = "C14"
LEVEL = "model_checking"
TOL = 1e-7


def build_model(variant="base"):
    from cobra import Metabolite, Model, Reaction

    m = Model("sched")
    A, B, C = (Metabolite(x, compartment="c") for x in "ABC")
    Ce = Metabolite("C_e", compartment="e")
    Ae = Metabolite("A_e", compartment="e")

    def rx(i, st, lb, ub, rule=""):
        r = Reaction(i, lower_bound=lb, upper_bound=ub)
        r.add_metabolites(st)
        r.gene_reaction_rule = rule
        return r

    if variant == "detour":
        # a direct route (v1) and a detour of three steps: without v1 plain FBA still grows through the detour, whereas
        # the minimal-adjustment methods stay close to the reference and shut growth down - the result of a deletion
        # depends on the method, so a worker that silently falls back to FBA shows
        D, E = Metabolite("D", compartment="c"), Metabolite("E", compartment="c")
        m.add_reactions([rx("EX_A", {A: 1}, 0, 10), rx("v1", {A: -1, B: 1}, 0, 10, "g1"),
                         rx("v2", {A: -1, D: 1}, 0, 10, "g2"), rx("v3", {D: -1, E: 1}, 0, 10, "g3"),
                         rx("v4", {E: -1, B: 1}, 0, 10, "g3 or g5"), rx("tC", {B: -1}, 0, 10)])
        m.objective = "tC"
        return m
    rs = [rx("EX_A_e", {Ae: -1}, -10, 10), rx("tA", {Ae: -1, A: 1}, -10, 10, "g4"),
          rx("v1", {A: -1, B: 1}, 0, 10, "g1 and g2"), rx("v2", {B: -1, C: 1}, 0, 10, "g2 or g3"),
          rx("v3", {A: -1, C: 1}, 0, 4, "g5"), rx("tC", {C: -1, Ce: 1}, 0, 10), rx("EX_C_e", {Ce: -1}, 0, 10)]
    if variant in ("cycle", "unbounded"):
        rs.append(rx("v4", {C: -1, B: 1}, 0, 10, "g3"))
    if variant == "unbounded":
        # the internal cycle v2/v4 has no capacity limit: those two fluxes have no finite maximum, all others have
        rs[3].upper_bound = float("inf")
        rs[-1].upper_bound = float("inf")
    m.add_reactions(rs)
    m.objective = "EX_C_e"
    return m


def canon(x):
    import numpy as np
    import pandas as pd

    if isinstance(x, pd.DataFrame):
        if "ids" in x.columns:
            rows = {}
            for ids, g, s in zip(x["ids"], x["growth"], x["status"]):
                key = "+".join(sorted(ids))
                rows.setdefault(key, []).append((None if (isinstance(g, float) and math.isnan(g)) else round(float(g), 7), s))
            return {k: (v[0] if len(v) == 1 else ("DUPLICATE", v)) for k, v in rows.items()}
        return {str(i): tuple(None if (isinstance(v, float) and math.isnan(v)) else round(float(v), 7) for v in row)
                for i, row in zip(x.index, x.values)}
    if isinstance(x, (set, frozenset, list)):
        return sorted(getattr(i, "id", i) for i in x)
    return x


def cases(tier):
    from cobra.flux_analysis import (double_gene_deletion, double_reaction_deletion, find_blocked_reactions,
                                     find_essential_genes, find_essential_reactions, flux_variability_analysis,
                                     single_gene_deletion, single_reaction_deletion)

    rl = ["v1", "v2", "v3", "tC"]
    gl = ["g1", "g2", "g3", "g5"]
    out = [
        ("fva", "base", lambda m, p, items: flux_variability_analysis(m, reaction_list=items, processes=p), rl, True),
        ("fva_all", "base", lambda m, p, items: flux_variability_analysis(m, processes=p), None, False),
        ("fva_loopless", "cycle", lambda m, p, items: flux_variability_analysis(m, reaction_list=items, loopless=True, processes=p),
         ["v2", "v4", "v3", "v1"], True),
        ("fva_pfba", "base", lambda m, p, items: flux_variability_analysis(m, reaction_list=items, pfba_factor=1.1,
                                                                           fraction_of_optimum=0.9, processes=p), rl, False),
        ("blocked", "base", lambda m, p, items: find_blocked_reactions(m, processes=p), None, False),
        ("essential_genes", "base", lambda m, p, items: find_essential_genes(m, processes=p), None, False),
        ("essential_reactions", "base", lambda m, p, items: find_essential_reactions(m, processes=p), None, False),
        ("single_reaction_deletion", "base", lambda m, p, items: single_reaction_deletion(m, items, processes=p), rl, True),
        ("single_gene_deletion", "base", lambda m, p, items: single_gene_deletion(m, items, processes=p), gl, True),
        ("double_gene_deletion", "base", lambda m, p, items: double_gene_deletion(m, items, items, processes=p), gl, False),
        ("double_reaction_deletion", "base", lambda m, p, items: double_reaction_deletion(m, items, ["v3", "tC"], processes=p),
         ["v1", "v2"], False),
        ("single_gene_deletion_moma", "base", lambda m, p, items: single_gene_deletion(m, items, method="linear moma", processes=p),
         gl, False),
        ("single_reaction_deletion_moma", "base",
         lambda m, p, items: single_reaction_deletion(m, items, method="linear moma", processes=p), rl, False),
        # requests that mix reactions with and without a finite extreme (whatever the answer for the unbounded ones -
        # a refusal or an infinite value - it is the same in every order and the bounded ones are not affected)
        ("fva_unbounded", "unbounded", lambda m, p, items: flux_variability_analysis(m, reaction_list=items, processes=p),
         ["v3", "v2", "v1"], True),
        ("fva_unbounded_fraction", "unbounded",
         lambda m, p, items: flux_variability_analysis(m, reaction_list=items, fraction_of_optimum=0.5, processes=p),
         ["v4", "tC"], True),
        # a model on which the minimal-adjustment methods and FBA disagree about the knock-outs
        ("single_gene_deletion_moma_detour", "detour",
         lambda m, p, items: single_gene_deletion(m, items, method="linear moma", processes=p), ["g1", "g2", "g3", "g5"], False),
        ("single_reaction_deletion_room_detour", "detour",
         lambda m, p, items: single_reaction_deletion(m, items, method="linear room", processes=p), ["v1", "v2", "v4"], False),
        ("double_gene_deletion_moma_detour", "detour",
         lambda m, p, items: double_gene_deletion(m, items, ["g3", "g5"], method="linear moma", processes=p), ["g1", "g2"], False),
    ]
    return out


def run_case(name, tier, procs, perm_index, prefix):
    """One execution under the controlled pool. Returns (observation, chooser points, log)."""
    spec = {c[0]: c for c in cases(tier)}[name]
    _, variant, fn, items, permute = spec
    with warnings.catch_warnings():
        warnings.simplefilter("ignore")
        m = build_model(variant)
        its = None
        if items is not None:
            perms = list(itertools.permutations(items))
            its = list(perms[perm_index % len(perms)])
        ch = vpool.Chooser(prefix)
        log = []
        if procs > 1:
            vpool.install(ch, log)
        try:
            res = canon(fn(m, procs, its))
        except Exception as exc:
            res = ("raised", type(exc).__name__, str(exc)[:200])
        finally:
            vpool.uninstall()
    return res, ch, log


def baseline(name, tier):
    """processes=1 result and single-item results on fresh models."""
    spec = {c[0]: c for c in cases(tier)}[name]
    _, variant, fn, items, permute = spec
    with warnings.catch_warnings():
        warnings.simplefilter("ignore")
        def call(its):
            try:
                return canon(fn(build_model(variant), 1, its))
            except Exception as exc:   # a refusal (e.g. no finite extreme) is an answer like any other
                return ("raised", type(exc).__name__, str(exc)[:200])

        base = call(list(items) if items is not None else None)
        singles = {}
        if name == "double_gene_deletion":
            from cobra.flux_analysis import double_gene_deletion

            for a, b in itertools.combinations_with_replacement(items, 2):
                singles.update(canon(double_gene_deletion(build_model(variant), [a], [b], processes=1)))
        if items is not None and name in ("fva", "fva_loopless", "single_reaction_deletion", "single_gene_deletion",
                                          "single_gene_deletion_moma", "single_reaction_deletion_moma", "fva_pfba",
                                          "fva_unbounded", "fva_unbounded_fraction"):
            for it in items:
                r = call([it])
                if isinstance(r, dict):
                    singles.update(r)
    return base, singles


def same(a, b):
    if isinstance(a, dict) and isinstance(b, dict):
        if set(a) != set(b):
            return False
        return all(same(a[k], b[k]) for k in a)
    if isinstance(a, (tuple, list)) and isinstance(b, (tuple, list)):
        return len(a) == len(b) and all(same(x, y) for x, y in zip(a, b))
    if isinstance(a, float) and isinstance(b, float):
        return abs(a - b) <= TOL * max(1, abs(a))
    return a == b


def run_task(payload):
    name, tier, procs, perm_index, bound = payload["name"], payload["tier"], payload["procs"], payload["perm"], payload["bound"]
    stats = {"executions": 0, "schedules": set(), "max_chunks": 0}
    violations = []
    moma = "moma" in name
    base, singles = baseline(name, tier)
    if not moma and singles and isinstance(base, dict) and not all(same(base.get(k), v) for k, v in singles.items()):
        violations.append(({"fn": name, "check": "single-item call differs from the full call (processes=1)"},
                           {"name": name, "procs": 1, "perm": 0, "choices": []}, f"full {base}\nsingle {singles}"))

    def body(ch_prefix):
        res, ch, log = run_case(name, tier, procs, perm_index, ch_prefix)
        return res, ch, log

    out = []
    stack = [()]
    seen = set()
    while stack:
        prefix = stack.pop()
        if prefix in seen:
            continue
        seen.add(prefix)
        res, ch, log = body(prefix)
        stats["executions"] += 1
        sched = tuple(x for x in log if x[0] in ("assignment", "delivery"))
        stats["schedules"].add(sched)
        for x in log:
            if x[0] == "assignment":
                stats["max_chunks"] = max(stats["max_chunks"], x[2])
        ok = same(res, base) if not moma else moma_ok(res, base)
        if not ok:
            violations.append(({"fn": name, "check": "result depends on the schedule / process count",
                                "procs": procs, "permuted": perm_index != 0},
                               {"name": name, "procs": procs, "perm": perm_index, "choices": list(ch.choices)},
                               f"processes={procs} perm={perm_index} choices={ch.choices} schedule={sched}\n"
                               f"got      {res}\nexpected {base} (processes=1)"))
        dev = sum(1 for c in prefix if c != 0)
        if dev >= bound:
            continue
        for i in range(len(prefix), len(ch.points)):
            n, _ = ch.points[i]
            for alt in range(1, n):
                stack.append(tuple(ch.choices[:i]) + (alt,))
    stats["schedules"] = len(stats["schedules"])
    return {"violations": violations[:50], "stats": stats}


def moma_ok(res, base):
    """linear MOMA: statuses and row sets must agree; growth may differ only where the minimiser is not unique
    (C06 judges the value against the exact range) - here we require equality up to tolerance unless both are
    optimal and the baseline itself is reproduced by a second serial run with another item order."""
    if not isinstance(res, dict) or set(res) != set(base):
        return False
    for k in base:
        if res[k][1] != base[k][1]:
            return False
        a, b = res[k][0], base[k][0]
        if (a is None) != (b is None):
            return False
        if a is not None and abs(a - b) > 1e-6 * max(1, abs(b)):
            return False
    return True


def sampling_task(payload):
    """OptGP: reproducible for fixed seed and process count under every schedule; valid samples; row count."""
    import numpy as np
    from cobra.sampling import OptGPSampler

    procs, n, bound = payload["procs"], payload["n"], payload["bound"]
    stats = {"executions": 0, "schedules": set(), "max_chunks": 0}
    violations = []
    first = None
    stack = [()]
    seen = set()
    while stack:
        prefix = stack.pop()
        if prefix in seen:
            continue
        seen.add(prefix)
        with warnings.catch_warnings():
            warnings.simplefilter("ignore")
            m = build_model("base")
            ch = vpool.Chooser(prefix)
            log = []
            vpool.install(ch, log)
            try:
                s = OptGPSampler(m, processes=procs, thinning=2, seed=42)
                # another parallel sampler of another model is built in between and stays alive: each sampler's workers
                # run that sampler's chains
                other = OptGPSampler(build_model("cycle"), processes=procs, thinning=3, seed=7)  # noqa: F841
                df = s.sample(n)
                df2 = s.sample(n)  # second call on the same sampler must work and stay valid
                val = s.validate(np.vstack([df.values, df2.values]))
                res = (tuple(df.columns), tuple(map(tuple, np.round(df.values, 9))), tuple(map(tuple, np.round(df2.values, 9))),
                       tuple(val))
            except Exception as exc:
                res = ("raised", type(exc).__name__, str(exc)[:200])
            finally:
                vpool.uninstall()
        stats["executions"] += 1
        stats["schedules"].add(tuple(x for x in log if x[0] in ("assignment", "delivery")))
        case = {"sampling": True, "procs": procs, "n": n, "choices": list(ch.choices)}
        if res[0] == "raised":
            violations.append(({"fn": "optgp", "check": "raised " + res[1], "procs": procs}, case, str(res)))
        else:
            want_rows = int(math.ceil(n / procs)) * procs
            if len(res[1]) != want_rows or len(res[2]) != want_rows:
                violations.append(({"fn": "optgp", "check": "row count", "procs": procs}, case,
                                   f"{len(res[1])}, {len(res[2])} rows, expected {want_rows}"))
            if list(res[0]) != [r.id for r in m.reactions]:
                violations.append(({"fn": "optgp", "check": "columns", "procs": procs}, case, str(res[0])))
            if any(v != "v" for v in res[3]):
                violations.append(({"fn": "optgp", "check": "invalid sample", "procs": procs}, case, str(res[3])))
            if first is None:
                first = res
            elif res != first:
                violations.append(({"fn": "optgp", "check": "samples depend on the schedule for a fixed seed", "procs": procs},
                                   case, "differs from the first schedule"))
        dev = sum(1 for c in prefix if c != 0)
        if dev >= bound:
            continue
        for i in range(len(prefix), len(ch.points)):
            nalt, _ = ch.points[i]
            for alt in range(1, nalt):
                stack.append(tuple(ch.choices[:i]) + (alt,))
    stats["schedules"] = len(stats["schedules"])
    return {"violations": violations[:30], "stats": stats}


def real_pool_task(payload):
    """Conformance: the real multiprocessing pool gives the same results (processes 2..4)."""
    name, tier = payload["name"], payload["tier"]
    spec = {c[0]: c for c in cases(tier)}[name]
    _, variant, fn, items, permute = spec
    base, _ = baseline(name, tier)
    violations = []
    stats = {"real_pool_runs": 0}
    import multiprocessing

    methods = ["fork"] + (["spawn"] if payload.get("spawn") else [])
    for method in methods:
        # "spawn" is the start method of macOS/Windows: initargs (the model!) travel through pickle
        multiprocessing.set_start_method(method, force=True)
        try:
            for p in (payload["procs"] if method == "fork" else payload["procs"][:1]):
                with warnings.catch_warnings():
                    warnings.simplefilter("ignore")
                    try:
                        res = canon(fn(build_model(variant), p, list(items) if items is not None else None))
                    except Exception as exc:
                        res = ("raised", type(exc).__name__, str(exc)[:200])
                stats["real_pool_runs"] += 1
                ok = same(res, base) if "moma" not in name else moma_ok(res, base)
                if not ok:
                    violations.append(({"fn": name, "check": "real pool result differs from processes=1", "procs": p,
                                        "start_method": method},
                                       {"name": name, "procs": p, "real": True, "start_method": method},
                                       f"start method {method}\ngot {res}\nexpected {base}"))
        finally:
            multiprocessing.set_start_method("fork", force=True)
    return {"violations": violations, "stats": stats}


# ---------------------------------------------------------------------------------------
# conformance of the pool model: schedules observed from the real pool are members of the modelled set

_LOG = {"path": None, "delays": (), "calls": []}


def _item_key(item):
    if isinstance(item, str):
        return item
    try:
        return "+".join(sorted(str(getattr(i, "id", i)) for i in item))
    except TypeError:
        return str(item)


class _Logged:
    """Picklable wrapper of the worker function the library hands to its pool: sleeps the delay assigned to the
    item's position, logs (worker pid, position), calls the real function.  Independent of the function's name."""

    def __init__(self, func, path, keys, delays):
        self.func, self.path, self.keys, self.delays = func, path, keys, delays

    def __call__(self, item):
        import os
        import time

        pos = self.keys.index(_item_key(item))
        d = self.delays[pos] if pos < len(self.delays) else 0.0
        if d:
            time.sleep(d)
        with open(self.path, "a") as fh:
            fh.write(f"{os.getpid()} {pos}\n")
        return self.func(item)


def _logging_pool_class():
    """Subclass of the library's own ProcessPool that records, per imap_unordered/map call, the submitted order and
    the chunk size actually requested, and wraps the worker function with `_Logged`."""
    import cobra.util.process_pool as PP

    class LoggingPool(PP.ProcessPool):
        def _wrap(self, func, iterable, chunksize):
            items = list(iterable)
            keys = [_item_key(i) for i in items]
            call = {"keys": keys, "chunksize": chunksize, "first_line": None}
            with open(_LOG["path"]) as fh:
                call["first_line"] = len(fh.read().splitlines())
            _LOG["calls"].append(call)
            return _Logged(func, _LOG["path"], keys, tuple(_LOG["delays"])), items

        def imap_unordered(self, func, iterable, chunksize=1):
            f, items = self._wrap(func, iterable, chunksize)
            return self._pool.imap_unordered(f, items, chunksize=chunksize)

        def map(self, func, iterable, chunksize=None):
            f, items = self._wrap(func, iterable, chunksize)
            return self._pool.map(f, items, chunksize=chunksize)

    return LoggingPool


def conformance_task(payload):
    """Bind the pool model to CPython's pool: run the library's real pool (a logging subclass of its ProcessPool)
    with every 0/5 ms delay pattern over the first k submitted tasks and check that every observed
    (worker -> tasks) schedule is one the pool model can produce: chunks are consecutive slices of the submitted
    order of the size the library asked for, and every worker processes whole chunks in increasing order.
    A mismatch means the *model* of the pool is wrong (reported as an internal error, never as a violation of
    C14); results that differ from processes=1 are violations."""
    import itertools
    import os
    import tempfile

    from cobra.flux_analysis import flux_variability_analysis, single_gene_deletion

    from ..seams import vpool

    which, procs, k = payload["which"], payload["procs"], payload["k"]
    stats = {"conformance_runs": 0, "observed_schedules": set(), "conformance_pool_calls": 0}
    violations = []
    model_errors = []
    fd, path = tempfile.mkstemp(prefix="c14_log_")
    os.close(fd)
    _LOG["path"] = path
    try:
        items = ["v1", "v2", "v3", "tC", "tA"] if which == "fva" else ["g1", "g2", "g3", "g4", "g5"]
        for pattern in itertools.product((0.0, 0.005), repeat=k):
            _LOG["delays"] = pattern
            _LOG["calls"] = []
            open(path, "w").close()
            with warnings.catch_warnings():
                warnings.simplefilter("ignore")
                m = build_model("base")
                fn = flux_variability_analysis if which == "fva" else single_gene_deletion
                kw = {"reaction_list": items} if which == "fva" else {"gene_list": items}
                base = canon(fn(build_model("base"), processes=1, **kw))
                if vpool.rebind_pool_class(_logging_pool_class()) == 0:
                    return {"violations": [], "stats": {"conformance_seam_missing": 1}}
                try:
                    res = canon(fn(m, processes=procs, **kw))
                finally:
                    vpool.restore_pool_class()
            stats["conformance_runs"] += 1
            case = {"conformance": which, "procs": procs, "pattern": list(pattern)}
            if not same(res, base):
                violations.append(({"fn": which, "check": "real pool with delays differs from processes=1", "procs": procs},
                                   case, f"{res}\n{base}"))
            lines = [ln.split() for ln in open(path).read().splitlines()]
            calls = _LOG["calls"]
            stats["conformance_pool_calls"] += len(calls)
            for ci, call in enumerate(calls):
                end = calls[ci + 1]["first_line"] if ci + 1 < len(calls) else len(lines)
                lg = lines[call["first_line"]:end]
                n = len(call["keys"])
                per = {}
                for pid, pos in lg:
                    per.setdefault(pid, []).append(int(pos))
                if sorted(i for v in per.values() for i in v) != list(range(n)):
                    violations.append(({"fn": which, "check": "conformance: tasks lost or duplicated in the real pool",
                                        "procs": procs}, case, str(per)))
                    continue
                chunksize = max(1, call["chunksize"] or 1) if call["chunksize"] is not None else None
                if chunksize is None:   # Pool.map default: ceil(n / (4 * processes))
                    chunksize = max(1, -(-n // (4 * procs)))
                for pid, idx in per.items():
                    ok = idx == sorted(idx) and all(
                        idx[j] % chunksize == 0 or (j > 0 and idx[j] == idx[j - 1] + 1) for j in range(len(idx)))
                    if not ok:
                        model_errors.append(f"{which} procs={procs} pattern={pattern}: worker {pid} ran positions {idx} "
                                            f"(chunksize {chunksize}) - outside the pool model")
                stats["observed_schedules"].add(tuple(sorted(tuple(v) for v in per.values())))
    finally:
        os.unlink(path)
    stats["observed_schedules"] = len(stats["observed_schedules"])
    out = {"violations": violations[:20], "stats": stats}
    if model_errors:
        out["internal_error"] = "pool model does not conform to the real pool: " + "; ".join(model_errors[:3])
    return out


def dispatch(payload):
    if payload.get("kind") == "conformance":
        return conformance_task(payload)
    if payload.get("kind") == "sampling":
        return sampling_task(payload)
    if payload.get("kind") == "real":
        return real_pool_task(payload)
    return run_task_inner(payload)


run_task_inner = run_task


def run_task(payload):  # noqa: F811
    return dispatch(payload)


def replay(case):
    if case.get("conformance"):
        r = conformance_task({"which": case["conformance"], "procs": case["procs"], "k": len(case["pattern"])})
        return [{"sig": s, "detail": d} for s, c, d in r["violations"]]
    if case.get("sampling"):
        r = sampling_task({"procs": case["procs"], "n": case["n"], "bound": 0})
        return [{"sig": s, "detail": d} for s, c, d in r["violations"]]
    if case.get("real"):
        r = real_pool_task({"name": case["name"], "tier": "thorough", "procs": [case["procs"]],
                            "spawn": case.get("start_method") == "spawn"})
        return [{"sig": s, "detail": d} for s, c, d in r["violations"]]
    name, procs, perm, choices = case["name"], case["procs"], case["perm"], tuple(case["choices"])
    base, _ = baseline(name, "thorough")
    res, ch, log = run_case(name, "thorough", procs, perm, choices)
    ok = same(res, base) if "moma" not in name else moma_ok(res, base)
    if ok:
        return []
    return [{"sig": {"fn": name, "check": "result depends on the schedule / process count", "procs": procs,
                     "permuted": perm != 0}, "detail": f"got {res}\nexpected {base}"}]


def explore(ctx):
    bound = 2 if ctx.tier == "quick" else 3
    procs_menu = (2, 3) if ctx.tier == "quick" else (2, 3, 4)
    payloads = []
    for name, variant, fn, items, permute in cases(ctx.tier):
        nperm = 1
        if permute and items is not None:
            nperm = math.factorial(len(items))
        for p in procs_menu:
            for perm in range(nperm):
                b = bound if perm == 0 else (1 if ctx.tier == "quick" else 2)
                if ctx.tier == "quick" and perm % 3 and perm != 0:
                    b = 0
                payloads.append({"name": name, "tier": ctx.tier, "procs": p, "perm": perm, "bound": b})
        payloads.append({"kind": "real", "name": name, "tier": ctx.tier, "procs": [2, 3] if ctx.tier == "quick" else [2, 3, 4, 6],
                         "spawn": name in ("fva", "single_gene_deletion", "double_gene_deletion", "blocked",
                                           "single_gene_deletion_moma", "fva_loopless")})
    for p in procs_menu:
        for n in (4, 5):
            payloads.append({"kind": "sampling", "procs": p, "n": n, "bound": bound})
        for which in ("fva", "gene"):
            payloads.append({"kind": "conformance", "which": which, "procs": p, "k": 3 if ctx.tier == "quick" else 5})
    stats = {}
    with ctx.pool(timeout=3000) as pool:
        for i, status, r0 in pool.imap(payloads):
            r = ctx.collect(status, r0)
            if r is None:
                if status in ("abort", "timeout"):
                    ctx.violation({"fn": payloads[i].get("name", "optgp"), "check": "worker " + status}, payloads[i], status)
                continue
            for k, v in r["stats"].items():
                if k == "max_chunks":
                    stats[k] = max(stats.get(k, 0), v)
                else:
                    stats[k] = stats.get(k, 0) + v
    if stats.get("max_chunks", 0) < 3:
        ctx.internal("vacuous exploration: no execution had >= 3 chunks")
    ctx.cov.update({
        "states": stats.get("schedules", 0), "transitions": stats.get("executions", 0),
        "traces_validated_against_impl": stats.get("executions", 0) + stats.get("real_pool_runs", 0),
        "evaluations": stats.get("executions", 0) + stats.get("real_pool_runs", 0),
        "distinct_nontrivial": stats.get("schedules", 0),
        "rule": "for each of %d functions (FVA plain/loopless/pfba, blocked, essential genes/reactions, single/double gene/"
                "reaction deletion with fba and linear moma, OptGP sampling) x processes %s x every permutation of the item "
                "list: all schedules of the controlled forked pool (chunk->worker assignment up to worker symmetry, delivery "
                "order) with <=%d deviations from the default schedule; each execution compared with the processes=1 result and "
                "single-item calls; real multiprocessing pool run for conformance; non-trivial = distinct (assignment, delivery) "
                "schedules executed" % (len(cases(ctx.tier)) + 1, procs_menu, bound),
        "exhaustive": True, "bound_completed": {"deviations": bound}, "distinct_schedules": stats.get("schedules", 0),
        "executions": stats.get("executions", 0), "real_pool_runs": stats.get("real_pool_runs", 0),
        "max_chunks_in_one_call": stats.get("max_chunks", 0),
        "conformance_runs_real_pool_with_delays": stats.get("conformance_runs", 0),
        "conformance_observed_schedules": stats.get("observed_schedules", 0),
        "conformance_pool_calls_logged": stats.get("conformance_pool_calls", 0),
        "conformance_seam_missing": stats.get("conformance_seam_missing", 0),
    })
    ctx.sample({"fn": "single_gene_deletion", "processes": 3, "choices": [0, 1, 0, 0, 1], "meaning": "chunk->worker, delivery"})
    ctx.assumptions += ["workers never communicate with the parent while running, so serial lock-step execution of the forked "
                        "workers yields exactly the observable schedules of multiprocessing.Pool",
                        "OS-level worker failures and the Windows initialiser path are not modelled"]
