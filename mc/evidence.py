"""evidence/<id>.json writer; validated against /root/.vp/EVIDENCE.schema.json."""
import json
import os
import shutil
import subprocess

from . import VERIF_ROOT

SCHEMA = "/root/.vp/EVIDENCE.schema.json"
_VALIDATOR = r"""
import json, sys, jsonschema
schema = json.load(open(sys.argv[1])); doc = json.load(open(sys.argv[2]))
jsonschema.Draft202012Validator(schema).validate(doc)
"""


def _jsonable(x):
    try:
        json.dumps(x)
        return x
    except TypeError:
        if isinstance(x, dict):
            return {str(k): _jsonable(v) for k, v in x.items()}
        if isinstance(x, (list, tuple, set, frozenset)):
            return [_jsonable(v) for v in x]
        return repr(x)


def write_evidence(prop, tier, seed, level, coverage, assumptions, wall_s, violations):
    doc = {
        "property_id": prop,
        "tier": tier,
        "seed": int(seed),
        "level": level,
        "coverage": _jsonable(coverage),
        "assumptions": list(assumptions),
        "wall_s": round(float(wall_s), 3),
        "violations": int(violations),
    }
    cov = doc["coverage"]
    for k in ("evaluations", "distinct_nontrivial", "states", "transitions",
              "traces_validated_against_impl"):
        if k in cov:
            cov[k] = int(cov[k])
    from . import REPO_SRC
    # runs against a scratch tree (seeded or benign change under test) never touch the committed evidence
    d = os.path.join(VERIF_ROOT, "evidence") if REPO_SRC == "/repo/src" else os.path.join(
        VERIF_ROOT, "out", "evidence_scratch", str(os.getpid()))
    os.makedirs(d, exist_ok=True)
    path = os.path.join(d, f"{prop}.json")
    tmp = path + ".tmp"
    with open(tmp, "w") as fh:
        json.dump(doc, fh, indent=1, sort_keys=True)
        fh.write("\n")
    os.replace(tmp, path)
    vt = shutil.which("python3-vt")
    if vt and os.path.exists(SCHEMA):
        p = subprocess.run([vt, "-c", _VALIDATOR, SCHEMA, path], capture_output=True, text=True)
        if p.returncode != 0:
            print("EVIDENCE-INVALID:", p.stderr.strip().splitlines()[-1:] )
    else:  # minimal structural check
        for k in ("evaluations", "distinct_nontrivial", "samples"):
            if k not in cov:
                print(f"EVIDENCE-INVALID: coverage lacks {k}")
    return path
