"""Shared exploration body of C01 and C02: BFS over histories of bench operations.

Every transition is executed on fresh real objects rebuilt from the history, observed before
and after, and judged by
  C01  observe.lp_problems      (raw GLPK problem == FBA problem of the Python objects)
  C02  observe.xref_problems    (cross-reference invariants)
       ref_model.expected       (lock-step reference of the documented semantics + frame)
"""
import hashlib
import re
import warnings

from . import bench, observe, ref_model

_ID_RE = re.compile(
    r"\b(r\d\w*|EX_\w+|DM_\w+|SK_\w+|o_\w+|[A-DX]x?|A2|g\d\w*|G\d|uv\d?(_c)?|uc|nope)\b")


def normalise(text):
    text = str(text)
    for cut in ("{", "[", "("):
        i = text.find(cut)
        if i > 0:
            text = text[:i]
    text = re.sub(r"fixed_objective_[0-9a-f-]+", "fixed_objective_UUID", text)
    text = _ID_RE.sub("<id>", text)
    text = re.sub(r"-?\d+(\.\d+)?(e-?\d+)?", "#", text)
    return text.strip()[:120]


def variant(op):
    k = op[0]
    if k in ("add_mets", "sub_mets"):
        kinds = "+".join(kind for (kind, _), _ in op[2])
        return kinds + ("" if k == "sub_mets" or op[3] else ",replace")
    if k == "remove_rxns":
        return "+".join(kind for kind, _ in op[1]) + (",orphans" if op[2] else "")
    if k in ("remove_mets", "remove_genes"):
        return "n=%d,%s" % (len(op[1]), op[2])
    if k == "imul":
        return "neg" if op[2] < 0 else "pos"
    if k in ("merge",):
        return "%s,%s" % (op[1], "prefix" if op[2] else "noprefix")
    if k in ("add_boundary",):
        return op[2]
    if k in ("objective",):
        return op[1][0]
    if k in ("add_rxns", "add_model_mets", "add_groups", "rename_genes"):
        return "+".join(str(x) if isinstance(x, str) else "->".join(x) for x in op[1])
    if k in ("solver", "direction", "rule", "gpr", "set_reaction"):
        return str(op[-1])
    if k == "set_id" and " " in op[3]:
        return "refused"
    return ""


def pool_view(S):
    pv = {}
    for name in ("X", "A2", "X bad"):
        pv["met:" + name] = observe.metabolite_view(S.pool[name])
    for name in ("r3", "r3c", "rdup", "r bad", "r badmet"):
        r = S.pool[name]
        pv["rxn:" + name] = observe.reaction_view(r)
        for m in r.metabolites:
            pv["rxnmet:%s:%s" % (name, m.id)] = observe.metabolite_view(m)
    for rid, r in S.removed.items():
        pv["rxn:@" + rid] = observe.reaction_view(r)
        for m in r.metabolites:
            pv["rxnmet:@%s:%s" % (rid, m.id)] = observe.metabolite_view(m)
    pv["other"] = observe.unordered(observe.python_view(S.other))
    g = S.pool["G2"]
    pv["grp:G2"] = observe.group_view(g)
    for mem in g.members:
        for name in ("r3", "r3c", "rdup"):
            if S.pool[name] is mem:
                pv["grpmember:G2:%s" % mem.id] = name
    return pv


def state_key(S, view=None, raw=None):
    view = view if view is not None else observe.python_view(S.model)
    raw = raw if raw is not None else observe.raw_lp(S.model)
    key = (observe.freeze(view), observe.lp_canonical(raw, ordered=True),
           observe.freeze({k: v for k, v in pool_view(S).items() if k != "other"}),
           tuple(sorted(S.user_cols)), tuple(sorted(S.user_rows)),
           len(S.stack), tuple(S.trail) if S.stack else ())
    return hashlib.sha1(repr(key).encode()).hexdigest()


def content_key(S, view=None, raw=None):
    """Order-insensitive key: unordered Python view + raw LP keyed by name (row/column order and list order may
    legitimately depend on when optlang's lazy queue was flushed)."""
    view = view if view is not None else observe.python_view(S.model)
    raw = raw if raw is not None else observe.raw_lp(S.model)
    key = (observe.freeze(observe.unordered(view)), observe.lp_canonical(raw, ordered=False),
           tuple(sorted(S.user_cols)), tuple(sorted(S.user_rows)), len(S.stack))
    return hashlib.sha1(repr(key).encode()).hexdigest()


def new_session(interface, history):
    S = bench.Session(interface)
    bench.run_history(S, history)
    return S


def order_problems(pre, post):
    """List order of untouched elements must be preserved."""
    P = []
    for k in ("reactions", "metabolites", "genes", "groups"):
        a = [e["id"] for e in pre[k]]
        b = [e["id"] for e in post[k]]
        keep_a = [i for i in a if i in set(b)]
        keep_b = [i for i in b if i in set(a)]
        if keep_a != keep_b:
            P.append(f"{k}: order of untouched elements changed {keep_a} -> {keep_b}")
    return P


def check_step(interface, history, op, want=("C01", "C02")):
    """-> (key, expandable, {prop: [(sig, case, detail)]}, outcome)  or None if op is disabled."""
    S = new_session(interface, history)
    pre = observe.python_view(S.model)
    pre_u = observe.unordered(pre)
    pv = pool_view(S)
    try:
        exp = ref_model.expected(pre_u, op, pv)
    except KeyError:
        exp = None
    raised = None
    try:
        with warnings.catch_warnings():
            warnings.simplefilter("ignore")
            bench.apply_op(S, op)
    except bench.Disabled:
        return None
    except Exception as exc:
        raised = exc
    if S.stack:
        S.trail.append(op)
    else:
        S.trail = []
    case = {"interface": interface, "history": [list(_l(h)) for h in history], "op": _l(op)}
    out = {"C01": [], "C02": []}
    base = {"op": op[0], "variant": variant(op), "in_context": bool(pre["context_depth"]),
            "impl": "raised:" + type(raised).__name__ if raised else "returned"}

    def add(prop, inv, detail):
        s = dict(base)
        s["invariant"] = inv
        out[prop].append((s, case, f"history={history} op={op} raised={raised!r}\n{detail}"))

    try:
        post = observe.python_view(S.model)
        raw = observe.raw_lp(S.model)
    except Exception as exc:
        add("C02", "state unobservable after the operation: " + type(exc).__name__, repr(exc))
        return None, False, out, ("unobservable", None)
    post_u = observe.unordered(post)
    lp = observe.lp_problems(S.model, S.user_cols, S.user_rows, raw=raw)
    for p in lp[:4]:
        add("C01", normalise(p), "\n".join(lp[:6]))
    xr = observe.xref_problems(S.model)
    for p in xr[:4]:
        add("C02", normalise(p), "\n".join(xr[:6]))
    is_exit = op[0] in ("exit", "exit_exc")
    if exp is not None and not is_exit:
        if exp.get("raise"):
            if not raised:
                add("C02", "documented failure did not raise", "")
            d = observe.diff(pre_u, post_u)
            if d:
                add("C02", "failed operation changed " + observe.first_path(d), "\n".join(d))
        else:
            if raised:
                add("C02", "operation raised but the documentation names no failure", repr(raised))
            else:
                ev = exp["view"]
                rp = ref_model.check_restrict(ev, post_u)
                for p in rp:
                    add("C02", normalise(p), p)
                ev = ref_model.resolve_any(ev, post_u)
                d = observe.diff(ev, post_u)
                if d:
                    add("C02", "differs from documented semantics at " + observe.first_path(d),
                        "expected vs actual:\n" + "\n".join(d))
                if not op[0].startswith("h_"):
                    for p in order_problems(pre, post):
                        add("C02", normalise(p), p)
    elif raised and not is_exit and exp is None:
        pass
    violating = bool(out["C01"] or out["C02"])
    key = state_key(S, post, raw)
    outcome = ("raise:" + type(raised).__name__) if raised else "ok"
    return key, not violating, out, outcome


def _l(x):
    if isinstance(x, (tuple, list)):
        return [_l(y) for y in x]
    if x == float("inf"):
        return "inf"
    if x == float("-inf"):
        return "-inf"
    return x


def _t(x):
    if isinstance(x, (tuple, list)):
        return tuple(_t(y) for y in x)
    if x == "inf":
        return float("inf")
    if x == "-inf":
        return float("-inf")
    return x


def run_paths(payload, props):
    """Context sandwiches: run each history twice - observing after every step (invariants after every step) and
    observing only at the end - and compare the final states (observation non-interference)."""
    interface = payload["interface"]
    violations, stats = [], {"paths": 0, "path_steps": 0}
    for hist in payload["paths"]:
        hist = _t(hist)
        stats["paths"] += 1
        # mode A: step by step with checks
        final_a = None
        bad = False
        for i in range(len(hist)):
            res = check_step(interface, hist[:i], hist[i])
            if res is None:
                continue
            stats["path_steps"] += 1
            key, expandable, out, outcome = res
            pathname = "+".join(o[0] + ("[%s]" % variant(o) if variant(o) else "") for o in hist[:i + 1])
            for p in props:
                for s, c, d in out[p]:
                    s = dict(s)
                    s["path"] = pathname
                    c = dict(c)
                    c["path"] = True
                    violations.append((s, c, d))
            if out["C01"] or out["C02"]:
                bad = True
                break
            final_a = key
        if bad or final_a is None:
            continue
        # content of the final state when every step was observed
        SA = bench.Session(interface)
        for op in hist:
            try:
                with warnings.catch_warnings():
                    warnings.simplefilter("ignore")
                    bench.apply_op(SA, op)
            except bench.Disabled:
                pass
            except Exception:
                pass
            observe.raw_lp(SA.model)  # flushes optlang's queue like an observation does
        final_a = content_key(SA)
        # mode B: no intermediate observation
        S = new_session(interface, hist)
        try:
            view = observe.python_view(S.model)
            raw = observe.raw_lp(S.model)
        except Exception as exc:
            for p in props:
                violations.append(({"op": hist[-1][0], "variant": "", "invariant": "state unobservable after an unobserved "
                                    "history: " + type(exc).__name__, "impl": "", "in_context": False},
                                   {"interface": interface, "history": _l(hist[:-1]), "op": _l(hist[-1]), "path": True}, repr(exc)))
            continue
        if "C01" in props:
            lp = observe.lp_problems(S.model, S.user_cols, S.user_rows, raw=raw)
            for q in lp[:2]:
                violations.append(({"op": "+".join(o[0] for o in hist), "variant": "unobserved", "invariant": normalise(q),
                                    "impl": "returned", "in_context": False},
                                   {"interface": interface, "history": _l(hist[:-1]), "op": _l(hist[-1]), "path": True},
                                   f"history {hist} executed without intermediate observation\n" + "\n".join(lp[:5])))
        if content_key(S, view, raw) != final_a:
            for p in props:
                violations.append(({"op": "+".join(o[0] for o in hist), "variant": "unobserved",
                                    "invariant": "final state depends on whether the model was observed (solver flushed) in between",
                                    "impl": "returned", "in_context": False},
                                   {"interface": interface, "history": _l(hist[:-1]), "op": _l(hist[-1]), "path": True},
                                   f"history {hist}"))
    return {"violations": violations[:300], "stats": stats, "succ": []}


def run_task(payload, props=("C01", "C02")):
    if payload.get("kind") == "paths":
        return run_paths(payload, props)
    interface = payload["interface"]
    tier = payload["tier"]
    ops = bench.alphabet(tier)
    if payload.get("ops_filter"):
        ops = [o for o in ops if o[0] in payload["ops_filter"]]
    succ_all, violations, stats = [], [], {}
    audit_only = bool(payload.get("audit"))
    for hist, want_key in zip(payload["histories"], payload.get("keys") or [None] * len(payload["histories"])):
        hist = _t(hist)
        if want_key is not None:
            S = new_session(interface, hist)
            got = state_key(S)
            stats["audit_non_interference"] = stats.get("audit_non_interference", 0) + 1
            if got != want_key:
                for p in props:
                    violations.append(({"op": hist[-1][0] if hist else "", "variant": "", "invariant":
                                        "audit: state differs when replayed without intermediate observation",
                                        "impl": "", "in_context": False},
                                       {"interface": interface, "history": _l(hist), "op": None}, str(hist)))
        succ = []
        for op in ops:
            res = check_step(interface, hist, op)
            if res is None:
                stats["disabled"] = stats.get("disabled", 0) + 1
                continue
            key, expandable, out, outcome = res
            if audit_only:
                succ.append((op, key, expandable))
                continue
            for p in props:
                violations.extend(out[p])
            stats["outcome:" + str(outcome)] = stats.get("outcome:" + str(outcome), 0) + 1
            if outcome != "ok":
                stats["failing_ops"] = stats.get("failing_ops", 0) + 1
            if op[0].startswith("h_"):
                stats["handle_replacements"] = stats.get("handle_replacements", 0) + 1
            if op[0] == "solver":
                stats["solver_switches"] = stats.get("solver_switches", 0) + 1
            # a transition that violates either property is not expanded
            succ.append((op, key, expandable))
        succ_all.append(succ)
    return {"succ": succ_all, "violations": violations, "stats": stats}


def replay_case(case, props):
    if case.get("path"):
        r = run_paths({"interface": case["interface"], "paths": [list(case["history"]) + [case["op"]]]}, props)
        full = [list(_l(h)) for h in case["history"]] + [case["op"]]
        return [{"sig": s, "detail": d} for s, c, d in r["violations"]]
    res = check_step(case["interface"], _t(case["history"]), _t(case["op"])) if case.get("op") else None
    if res is None:
        return []
    key, expandable, out, outcome = res
    o = []
    for p in props:
        o += [{"sig": s, "detail": d} for s, c, d in out[p]]
    return o


def explore(ctx, props, depth_quick=2, depth_thorough=3):
    from .explore import bfs

    depth = depth_thorough if ctx.thorough else depth_quick
    total = {"states": 0, "transitions": 0}
    stats_all = {}
    layers = {}
    for interface in ("glpk", "glpk_exact"):
        root_key = None
        with ctx.pool(timeout=900) as pool:
            res = _bfs_with_keys(ctx, pool, interface, depth)
        total["states"] += res["states"]
        total["transitions"] += res["transitions"]
        for k, v in res["audit"].items():
            total["audit_" + k] = total.get("audit_" + k, 0) + v
        layers[interface] = res["layers"]
        for k, v in res["stats"].items():
            stats_all[k] = stats_all.get(k, 0) + v
        seen = res["seen"]
        for key in list(seen)[-2:]:
            ctx.sample({"interface": interface, "history": _l(seen[key])})
        # context sandwiches (depth 4): enter, a, b, exit
        sw = bench.sandwich_alphabet(ctx.tier)
        paths = [[("enter",), a, b, ("exit",)] for a in sw for b in sw]
        if interface != "glpk" and not ctx.thorough:
            paths = paths[::7]
        payloads = [{"kind": "paths", "interface": interface, "paths": [_l(p) for p in paths[i:i + 25]]}
                    for i in range(0, len(paths), 25)]
        with ctx.pool(timeout=900) as pool2:
            for i, status, r0 in pool2.imap(payloads):
                r = ctx.collect(status, r0)
                if r is None:
                    if status in ("abort", "timeout"):
                        ctx.violation({"op": "path", "variant": "", "invariant": "worker " + status, "impl": "", "in_context": True},
                                      {"interface": interface, "history": payloads[i]["paths"][0][:-1],
                                       "op": payloads[i]["paths"][0][-1], "path": True}, status)
                    continue
                for k2, v2 in r["stats"].items():
                    stats_all[k2] = stats_all.get(k2, 0) + v2
        total["transitions"] += 0
    ctx.cov.update({
        "states": total["states"], "transitions": total["transitions"],
        "traces_validated_against_impl": total["transitions"],
        "evaluations": total["transitions"],
        "distinct_nontrivial": max(0, total["states"] - 2),
        "rule": "BFS over all histories of bench operations (mc/bench.py alphabet, %d instances) up to depth %d "
                "for each start interface; a state is the canonical hash of (ordered Python view, ordered raw "
                "GLPK problem, detached-object pool, user solver items, context depth and in-context trail); "
                "non-trivial = differs from the initial state" % (len(bench.alphabet(ctx.tier)), depth),
        "exhaustive": True, "bound_completed": {"depth": depth}, "max_depth": depth, "layers": layers,
        "outcomes": stats_all,
        "distinct_outcomes": len([k for k in stats_all if k.startswith("outcome:")]),
        "failing_op_transitions": stats_all.get("failing_ops", 0),
        "context_sandwich_histories_depth4": stats_all.get("paths", 0), "context_sandwich_steps": stats_all.get("path_steps", 0),
        "audits": {"non_interference_replays": stats_all.get("audit_non_interference", 0),
                   "bisimulation_merged_histories": total.get("audit_merged_histories_audited", 0),
                   "bisimulation_mismatches": total.get("audit_mismatches", 0)},
    })
    ctx.assumptions += [
        "models no larger than the bench (4 reactions, 3 metabolites, 3 genes, 1 group, 1 user variable/constraint)",
        "glpk and glpk_exact only; LP numbers compared with relative tolerance 1e-12",
        "violating transitions are not expanded (post-state is outside the reference model)",
    ]


def _bfs_with_keys(ctx, pool, interface, depth):
    """bfs() variant that passes each state's key to the worker for the non-interference audit."""
    from . import explore as ex

    seen = {}
    S = bench.Session(interface)
    k0 = state_key(S)
    return ex.bfs(ctx, _KeyedPool(pool, seen), [((), k0)], max_depth=depth,
                  extra={"interface": interface, "tier": ctx.tier}, batch=2, timeout=900,
                  audit_depth=(1 if ctx.tier == "quick" else 2))


class _KeyedPool:
    """Wraps a WorkerPool: remembers key of each history and adds 'keys' to expand payloads."""

    def __init__(self, pool, seen):
        self.pool = pool
        self.keys = {}

    def imap(self, payloads, timeout=None):
        payloads = list(payloads)
        for p in payloads:
            p["keys"] = [self.keys.get(tuple(h)) for h in p["histories"]]
        for i, status, res in self.pool.imap(payloads, timeout):
            if status == "ok" and isinstance(res, dict) and "succ" in res:
                for h, succ in zip(payloads[i]["histories"], res["succ"]):
                    for op, key, expandable in succ:
                        if key is not None:
                            self.keys.setdefault(tuple(h) + (op,), key)
            yield i, status, res

    def map(self, payloads, timeout=None):
        return self.pool.map(payloads, timeout)
