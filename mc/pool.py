"""Crash-isolated worker processes.

Workers are plain subprocesses (not daemonic multiprocessing children, so the code under
test may create its own pools) that speak length-prefixed pickle frames over a dedicated
pipe pair (GLPK writes to the C-level stdout, so stdout is not usable as a channel).
The parent knows each worker's in-flight task: a worker that dies (GLPK abort()) or
exceeds the per-task wall clock yields a result with status 'abort' / 'timeout' for exactly
that task and is restarted.
"""
import os
import pickle
import queue
import select
import struct
import subprocess
import threading
import time

from . import PYTHON, REPO_SRC, VERIF_ROOT


def _send(fd, obj):
    data = pickle.dumps(obj, protocol=4)
    os.write(fd, struct.pack("<I", len(data)))
    view = memoryview(data)
    while view:
        n = os.write(fd, view)
        view = view[n:]


def _recv_exact(fd, n, deadline):
    buf = b""
    while len(buf) < n:
        left = None if deadline is None else max(0.0, deadline - time.time())
        r, _, _ = select.select([fd], [], [], left)
        if not r:
            return "timeout"
        chunk = os.read(fd, n - len(buf))
        if not chunk:
            return None
        buf += chunk
    return buf


def _recv(fd, timeout):
    deadline = None if timeout is None else time.time() + timeout
    head = _recv_exact(fd, 4, deadline)
    if head is None or head == "timeout":
        return head
    (n,) = struct.unpack("<I", head)
    body = _recv_exact(fd, n, deadline)
    if body is None or body == "timeout":
        return body
    return pickle.loads(body)


class _Worker:
    def __init__(self, harness, hashseed, log_path, extra_env=None):
        self.harness = harness
        self.hashseed = hashseed
        self.log_path = log_path
        self.extra_env = extra_env or {}
        self.proc = None
        self.calls = 0
        self.history = []   # payloads executed by the current process incarnation, in order
        self.start()

    def start(self):
        self.history = []
        p2c_r, p2c_w = os.pipe()
        c2p_r, c2p_w = os.pipe()
        env = dict(os.environ)
        env["PYTHONHASHSEED"] = str(self.hashseed)
        env["PYTHONPATH"] = VERIF_ROOT + os.pathsep + REPO_SRC
        env["PYTHONDONTWRITEBYTECODE"] = "1"
        env["OMP_NUM_THREADS"] = "1"
        env["OPENBLAS_NUM_THREADS"] = "1"
        env["MKL_NUM_THREADS"] = "1"
        env.update(self.extra_env)
        log = open(self.log_path, "ab")
        self.proc = subprocess.Popen(
            [PYTHON, "-u", "-m", "mc.worker", self.harness, str(p2c_r), str(c2p_w)],
            pass_fds=(p2c_r, c2p_w),
            stdin=subprocess.DEVNULL,
            stdout=log,
            stderr=log,
            env=env,
            cwd=VERIF_ROOT,
        )
        log.close()
        os.close(p2c_r)
        os.close(c2p_w)
        self.wfd = p2c_w
        self.rfd = c2p_r

    def kill(self):
        try:
            self.proc.kill()
        except Exception:
            pass
        try:
            self.proc.wait(timeout=10)
        except Exception:
            pass
        for fd in (self.wfd, self.rfd):
            try:
                os.close(fd)
            except OSError:
                pass

    # optlang never frees the GLPK problem of a discarded model (~80 KB per bench model): workers are recycled
    # after RECYCLE_AFTER tasks or as soon as their resident set exceeds RSS_LIMIT_MB
    RECYCLE_AFTER = 400
    RSS_LIMIT_MB = 1200

    def _rss_mb(self):
        try:
            with open(f"/proc/{self.proc.pid}/statm") as fh:
                return int(fh.read().split()[1]) * 4096 / 1e6
        except Exception:
            return 0.0

    def call(self, payload, timeout):
        self.calls += 1
        if self.calls > self.RECYCLE_AFTER or (self.calls > 1 and self._rss_mb() > self.RSS_LIMIT_MB):
            self.shutdown()
            self.calls = 1
            self.start()
        self.history.append(payload)
        try:
            _send(self.wfd, payload)
        except OSError:
            res = None
        else:
            res = _recv(self.rfd, timeout)
        if isinstance(res, dict) and res.get("violations"):
            # lets the runner re-execute the task (or everything this process ran before it) if a violating case
            # does not reproduce on its own
            res["_payload"] = payload
            res["_history"] = list(self.history)
        if res is None or (isinstance(res, str) and res == "timeout"):
            status = "timeout" if res == "timeout" else "abort"
            rc = None
            if status == "abort":
                try:
                    rc = self.proc.wait(timeout=10)
                except Exception:
                    rc = None
            self.kill()
            self.start()
            return status, {"returncode": rc}
        return "ok", res

    def shutdown(self):
        try:
            _send(self.wfd, ("__shutdown__",))
        except OSError:
            pass
        try:
            self.proc.wait(timeout=5)
        except Exception:
            pass
        self.kill()


class WorkerPool:
    """with WorkerPool('c15', n, hashseed) as pool: for i, status, res in pool.imap(payloads): ..."""

    def __init__(self, harness, nworkers=None, hashseed=0, timeout=120, extra_env=None):
        self.harness = harness
        self.n = nworkers or int(os.environ.get("VERIF_WORKERS") or 0) or min(16, os.cpu_count() or 4)
        self.hashseed = hashseed
        self.timeout = timeout
        self.extra_env = extra_env
        self.workers = []
        self._busy = False
        self._iso = None
        os.makedirs(os.path.join(VERIF_ROOT, "out", "logs"), exist_ok=True)

    def __enter__(self):
        return self

    def __exit__(self, *exc):
        self.close()

    def close(self):
        for w in self.workers + ([self._iso] if self._iso else []):
            w.shutdown()
        self.workers = []
        self._iso = None

    def _ensure(self, n):
        while len(self.workers) < n:
            k = len(self.workers)
            log = os.path.join(VERIF_ROOT, "out", "logs", f"{self.harness}.{k}.log")
            self.workers.append(_Worker(self.harness, self.hashseed, log, self.extra_env))

    def imap(self, payloads, timeout=None):
        """Yield (index, status, result) in completion order. status in ok/abort/timeout."""
        payloads = list(payloads)
        if not payloads:
            return
        timeout = timeout or self.timeout
        if self._busy:
            # re-entrant use (a harness isolating the culprit of a failed batch from inside its result loop): the
            # regular workers are owned by the threads of the outer imap, so these payloads run one by one on a
            # dedicated worker
            if self._iso is None:
                log = os.path.join(VERIF_ROOT, "out", "logs", f"{self.harness}.iso.log")
                self._iso = _Worker(self.harness, self.hashseed, log, self.extra_env)
            for i, p in enumerate(payloads):
                try:
                    status, res = self._iso.call(p, timeout)
                except Exception as exc:  # pragma: no cover
                    status, res = "abort", {"error": repr(exc)}
                yield i, status, res
            return
        self._busy = True
        try:
            yield from self._imap(payloads, timeout)
        finally:
            self._busy = False

    def _imap(self, payloads, timeout):
        n = min(self.n, len(payloads))
        self._ensure(n)
        todo = queue.Queue()
        for item in enumerate(payloads):
            todo.put(item)
        done = queue.Queue()

        def loop(w):
            while True:
                try:
                    i, p = todo.get_nowait()
                except queue.Empty:
                    return
                try:
                    status, res = w.call(p, timeout)
                except Exception as exc:  # pragma: no cover - harness failure
                    status, res = "abort", {"error": repr(exc)}
                done.put((i, status, res))

        threads = [threading.Thread(target=loop, args=(w,), daemon=True) for w in self.workers[:n]]
        for t in threads:
            t.start()
        for _ in range(len(payloads)):
            yield done.get()
        for t in threads:
            t.join()

    def map(self, payloads, timeout=None):
        out = [None] * len(payloads)
        for i, status, res in self.imap(payloads, timeout):
            out[i] = (status, res)
        return out
