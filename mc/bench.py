"""The bench: shared universe of C01, C02, C03, C12 (DESIGN §2.6).

A Session owns fresh real objects built from a literal description, a pool of detached
objects, the names of user-added solver items and the stack of open contexts.  Operations
are plain tuples, applied by `apply_op`; `alphabet()` lists all instances simplest-first.
"""
import copy
import pickle
import warnings

INF = float("inf")


class Disabled(Exception):
    """The operation refers to something that does not exist in this state (not a transition)."""


class BlockExit(Exception):
    """Private exception used for exceptional context exit."""


def build_bench(interface="glpk"):
    import cobra
    from cobra import Metabolite, Model, Reaction
    from cobra.core import Group

    m = Model("bench")
    m.solver = interface
    A = Metabolite("A", name="met A", compartment="c", formula="C2H4", charge=0)
    B = Metabolite("B", name="met B", compartment="c", formula="C2H4", charge=0)
    C = Metabolite("C", name="met C", compartment="e", formula="C2H4", charge=0)
    A.annotation = {"kegg.compound": "C00001"}
    A.notes = {"note": "a"}
    B.annotation = {"chebi": ["CHEBI:1", "CHEBI:2"]}   # a mutable value below the first level
    r1 = Reaction("r1", name="rxn 1", subsystem="S1", lower_bound=0, upper_bound=10)
    r1.add_metabolites({A: -1, B: 1})
    r1.gene_reaction_rule = "g1 and g2"
    r1.annotation = {"ec-code": "1.1.1.1"}
    r2 = Reaction("r2", name="rxn 2", subsystem="S1", lower_bound=-10, upper_bound=10)
    r2.add_metabolites({B: -1, C: 1})
    r2.gene_reaction_rule = "g2 or g3"
    exa = Reaction("EX_A", name="A exchange", lower_bound=-5, upper_bound=1000)
    exa.add_metabolites({A: -1})
    exc = Reaction("EX_C", name="C exchange", lower_bound=0, upper_bound=1000)
    exc.add_metabolites({C: -1})
    m.add_reactions([r1, r2, exa, exc])
    m.genes.g1.annotation = {"ncbigene": ["946", "947"]}
    m.compartments = {"c": "cytosol", "e": "extracellular"}
    m.objective = "EX_C"
    g = Group("G1", name="group 1", members=[r1, A])
    m.add_groups([g])
    uv = m.problem.Variable("uv", lb=0, ub=5)
    uc = m.problem.Constraint(uv + r2.flux_expression, lb=-100, ub=8, name="uc")
    m.add_cons_vars([uv, uc])
    m.solver.update()
    return m


def build_other(interface="glpk"):
    """Second small model for merge: shares ids r2 and B."""
    from cobra import Metabolite, Model, Reaction

    o = Model("other")
    o.solver = interface
    B = Metabolite("B", compartment="c")
    D = Metabolite("D", compartment="c")
    r2 = Reaction("r2", lower_bound=0, upper_bound=7)
    r2.add_metabolites({B: -1, D: 1})
    r5 = Reaction("r5", lower_bound=0, upper_bound=3)
    r5.add_metabolites({D: -1})
    r5.gene_reaction_rule = "g7"
    o.add_reactions([r2, r5])
    o.objective = "r5"
    return o


class Session:
    def __init__(self, interface="glpk"):
        self.interface0 = interface
        self.model = build_bench(interface)
        self.user_cols = {"uv"}
        self.user_rows = {"uc"}
        self.stack = []  # open contexts: saved (user_cols, user_rows) at each enter
        self.trail = []  # ops since the outermost enter
        self.pool = {}
        self.removed = {}  # reaction objects removed from the model by the driver, by id
        self.other = build_other(interface)
        self._fresh_pool()

    # -- detached objects -------------------------------------------------------------
    def _fresh_pool(self, only_attached=False):
        from cobra import Metabolite, Reaction
        from cobra.core import Group

        m = self.model

        def need(name):
            if not only_attached or name not in self.pool:
                return True
            obj = self.pool[name]
            return getattr(obj, "_model", None) is not None

        def mm(i, comp="c"):
            return m.metabolites.get_by_id(i) if i in m.metabolites else Metabolite(i, compartment=comp)

        if need("X"):
            self.pool["X"] = Metabolite("X", name="met X", compartment="c")
        if need("A2"):
            self.pool["A2"] = mm("A").copy()
        if need("r3"):
            r3 = Reaction("r3", name="rxn 3", lower_bound=0, upper_bound=4)
            r3.add_metabolites({mm("A"): -1, mm("C", "e"): 1})
            r3.gene_reaction_rule = "g4"
            self.pool["r3"] = r3
        if need("r3c"):
            r3c = Reaction("r3c", name="rxn 3c", lower_bound=-2, upper_bound=4)
            r3c.add_metabolites({self.pool["A2"].copy(): -1, Metabolite("X", name="met X", compartment="c"): 1})
            r3c.gene_reaction_rule = "g1 or g4"
            self.pool["r3c"] = r3c
        if need("rdup"):
            rd = Reaction("r1", name="dup", lower_bound=0, upper_bound=1)
            rd.add_metabolites({Metabolite("B", compartment="c"): -1})
            self.pool["rdup"] = rd
        # identifiers that the model classes accept but the solver interface refuses as a name
        if need("X bad"):
            self.pool["X bad"] = Metabolite("X bad", name="met X bad", compartment="c")
        if need("r bad"):
            rb = Reaction("r bad", name="rxn bad", lower_bound=0, upper_bound=3)
            rb.add_metabolites({mm("A"): -1})
            self.pool["r bad"] = rb
        if need("r badmet"):
            rb = Reaction("rbm", name="rxn with a refused metabolite", lower_bound=0, upper_bound=3)
            rb.add_metabolites({mm("A"): -1, Metabolite("Y bad", compartment="c"): 1})
            self.pool["r badmet"] = rb
        if need("G2"):
            self.pool["G2"] = Group("G2", name="group 2", members=[self.pool["r3"]])

    # -- lookups ----------------------------------------------------------------------
    def rxn(self, rid):
        m = self.model
        if rid in m.reactions:
            return m.reactions.get_by_id(rid)
        raise Disabled(rid)

    def met(self, mid):
        m = self.model
        if mid in m.metabolites:
            return m.metabolites.get_by_id(mid)
        raise Disabled(mid)

    def gene(self, gid):
        m = self.model
        if gid in m.genes:
            return m.genes.get_by_id(gid)
        raise Disabled(gid)

    def metkey(self, spec):
        kind, mid = spec
        if kind == "id":
            return mid
        if kind == "obj":
            if mid in self.model.metabolites:
                return self.model.metabolites.get_by_id(mid)
            if mid in self.pool:
                return self.pool[mid]
            raise Disabled(mid)
        if kind == "copy":
            return self.met(mid).copy()
        raise AssertionError(spec)

    def replace_model(self, new):
        self.model = new
        self.removed = {}
        self.stack = []
        self.trail = []
        self._fresh_pool(only_attached=True)


# ----------------------------------------------------------------------------------------
# alphabet

def alphabet(tier="quick", family="all"):
    """Operation instances, simplest first.  family: all | reversible (C03) ."""
    ops = []
    # 1 bounds
    ops += [("lb", "r1", 2), ("lb", "r1", -3), ("lb", "r1", 20), ("lb", "r2", -INF),
            ("ub", "r1", 4), ("ub", "r2", 0), ("ub", "r2", -20), ("ub", "r1", INF),
            ("bounds", "r1", 0, 0), ("bounds", "r2", 2, 2), ("bounds", "r2", -INF, INF),
            ("bounds", "r1", 5, 1), ("bounds", "r2", -10, -2), ("bounds", "EX_A", -5, 1000),
            ("knock_out", "r2")]
    # 2 stoichiometry
    ops += [("add_mets", "r1", ((("obj", "C"), 1),), True),
            ("add_mets", "r1", ((("id", "C"), 2),), True),
            ("add_mets", "r1", ((("id", "nope"), 1),), True),
            ("add_mets", "r1", ((("copy", "A"), -1),), True),
            ("add_mets", "r1", ((("obj", "X"), 1),), True),
            ("add_mets", "r1", ((("obj", "C"), 1), (("obj", "X bad"), 1)), True),
            ("add_mets", "r1", ((("obj", "B"), -1),), True),
            ("add_mets", "r1", ((("obj", "B"), 3),), False),
            ("add_mets", "r1", ((("obj", "C"), 1), (("id", "nope"), 1)), True),
            ("sub_mets", "r1", ((("obj", "B"), 1),)),
            ("sub_mets", "r2", ((("id", "C"), 0.5),)),
            ("iadd", "r1", "r2"), ("isub", "r1", "r2"), ("isub", "r2", "r1"),
            ("imul", "r1", 2), ("imul", "r1", -1), ("imul", "r2", 0.5),
            ("set_reaction", "r1", "A + 2 X --> B"), ("set_reaction", "r1", "A B"),
            ("set_reaction", "r2", "C <=> B")]
    # 3 gene rules
    ops += [("rule", "r1", "g1 or g3"), ("rule", "r1", ""), ("rule", "r1", "g5 and g6"),
            ("rule", "r2", "(g1 and g2) or g3"), ("rule", "r1", "g1 and"),
            ("gpr", "r1", "g2"),
            ("gene_ko", "g1"), ("gene_ko", "g3"), ("ko_genes", ("g2",)), ("ko_genes", ("g1", "g3"))]
    # 4 structure
    ops += [("add_rxns", ("r3",)), ("add_rxns", ("r3c",)), ("add_rxns", ("rdup",)),
            ("add_rxns", ("r3", "r3")),
            ("add_rxns", ("r bad",)), ("add_rxns", ("r3", "r bad")), ("add_rxns", ("r badmet",)),
            ("remove_rxns", (("obj", "r1"),), False), ("remove_rxns", (("id", "r2"),), False),
            ("remove_rxns", (("id", "nope"),), False), ("remove_rxns", (("obj", "EX_C"),), False),
            ("remove_rxns", (("id", "r1"),), False), ("add_back", "r1"), ("add_back", "r2"),
            ("remove_rxns", (("obj", "r1"),), True), ("remove_rxns", (("id", "EX_A"), ("id", "r1")), True),
            ("remove_from_model", "r2"),
            ("add_model_mets", ("X",)), ("add_model_mets", ("A2",)), ("add_model_mets", ("X", "X")),
            ("add_model_mets", ("X bad",)), ("add_model_mets", ("X", "X bad")),
            ("remove_mets", ("B",), False), ("remove_mets", ("B",), True), ("remove_mets", ("X",), False),
            ("remove_mets", ("A",), False),
            ("add_boundary", "B", "demand"), ("add_boundary", "B", "sink"),
            ("add_boundary", "B", "exchange"), ("add_boundary", "C", "exchange"),
            ("add_boundary", "A", "custom"),
            ("add_groups", ("G2",)), ("remove_groups", ("G1",)),
            ("remove_genes", ("g1",), False), ("remove_genes", ("g1",), True),
            ("remove_genes", ("g3",), True), ("remove_genes", ("g2", "g3"), False),
            ("remove_genes", ("g2",), True), ("remove_genes", ("g2", "g3"), True),
            ("rename_genes", (("g1", "g9"),)), ("rename_genes", (("g1", "g2"),)),
            ("rename_genes", (("g1", "g9"), ("g3", "g9"))),
            ("merge", "left", None), ("merge", "right", None), ("merge", "sum", "o_"),
            ("repair",)]
    # 5 identifiers
    ops += [("set_id", "rxn", "r1", "r1x"), ("set_id", "rxn", "r1", "r2"),
            ("set_id", "met", "A", "Ax"), ("set_id", "met", "A", "B"),
            # ids that cobra accepts but the solver interface refuses as a name
            ("set_id", "rxn", "r1", "r 1"), ("set_id", "met", "A", "A prime")]
    # 6 objective
    ops += [("objective", ("id", "r1")), ("objective", ("obj", "r2")),
            ("objective", ("dict", (("r1", 1), ("r2", 2)))), ("objective", ("id", "nope")),
            ("objective", ("dict_detached", (("r1", 1), ("r3", 1)))),
            ("obj_coef", "r1", 3), ("obj_coef", "EX_C", 0),
            ("direction", "min"), ("direction", "maximize"), ("direction", "bogus")]
    # 7 solver level
    ops += [("add_cons_vars", "uv2"), ("remove_cons_vars", "uc"), ("remove_cons_vars", "uv"),
            ("solver", "glpk_exact"), ("solver", "glpk"), ("solver", "nope"),
            ("tolerance", 1e-8), ("optimize",), ("slim_optimize",),
            # a solve in the other / the same direction for this one call only (the model keeps its direction)
            ("optimize", "minimize"), ("optimize", "maximize")]
    # 8 handle replacement
    ops += [("h_copy",), ("h_deepcopy",), ("h_pickle",),
            # continue on the model that comes back from a file format (built by the readers' own code paths; user-level
            # solver items are not part of the formats).  Whether it equals the original is C10/C11's question, the
            # invariants and the reference semantics of every later operation are asked here.
            ("h_json",), ("h_sbml",)]
    # 9 contexts
    ops += [("enter",), ("exit",), ("exit_exc",)]
    if tier != "quick":
        ops += [("lb", "EX_C", 3), ("ub", "EX_A", -1),
                ("add_mets", "r2", ((("obj", "A"), 0.5),), True),
                ("imul", "r2", -2), ("rule", "r2", "g4"),
                ("remove_rxns", (("obj", "r2"),), True), ("remove_mets", ("C",), True),
                ("medium", (("EX_A", 3),)), ("medium", ())]
    return ops


HELPERS = [("helper", "add_pfba"), ("helper", "fix_objective"), ("helper", "add_loopless"),
           ("helper", "add_moma_linear"), ("helper", "add_room_linear"), ("helper", "add_lp_feasibility")]


def reversible_alphabet(tier="quick"):
    """Operations documented as reversible inside `with model:` (C03), plus analysis helpers."""
    ops = [o for o in alphabet(tier) if o[0] not in NOT_REVERSIBLE and o[0] not in ("enter", "exit", "exit_exc")
           and o != ("solver", "nope")]
    ops += [("medium", (("EX_A", 3),)), ("medium", ())] if tier == "quick" else []
    return ops + HELPERS


DETACHED_OPS = [("lb_removed", "r1", 3), ("bounds_removed", "r2", -1, 2), ("lb_removed", "EX_C", 1),
                ("rule_removed", "r1", "g1 or g3")]


def sandwich_alphabet(tier="quick"):
    """Operations for context sandwiches `enter, a, b, exit` (C01/C02): every structural/stoichiometric/objective
    operation plus edits of reactions that the driver removed (detached objects)."""
    keep = {"lb", "bounds", "add_mets", "iadd", "imul", "set_reaction", "rule", "gene_ko", "add_rxns", "remove_rxns",
            "remove_from_model", "add_back", "add_model_mets", "remove_mets", "add_boundary", "remove_genes", "rename_genes",
            "merge", "set_id", "objective", "obj_coef", "direction", "add_cons_vars", "remove_cons_vars", "solver",
            "optimize", "h_copy"}
    ops = [o for o in alphabet(tier) if o[0] in keep]
    return ops + DETACHED_OPS


NOT_REVERSIBLE = {"add_groups", "remove_groups", "set_id", "set_gene_id", "repair", "tolerance",
                  "h_copy", "h_deepcopy", "h_pickle", "h_json", "h_sbml", "gene_ko_direct"}


# ----------------------------------------------------------------------------------------
# application

def apply_op(S, op):
    """Apply op to the session.  Raises Disabled if not applicable; lets the library's own
    exceptions propagate (the caller records them)."""
    import cobra
    from cobra.core.gene import GPR
    from cobra.manipulation import knock_out_model_genes, remove_genes
    from cobra.manipulation.modify import rename_genes

    m = S.model
    k = op[0]
    if k == "lb":
        S.rxn(op[1]).lower_bound = op[2]
    elif k == "ub":
        S.rxn(op[1]).upper_bound = op[2]
    elif k == "bounds":
        S.rxn(op[1]).bounds = (op[2], op[3])
    elif k == "knock_out":
        S.rxn(op[1]).knock_out()
    elif k == "add_mets":
        r = S.rxn(op[1])
        d = {S.metkey(spec): c for spec, c in op[2]}
        r.add_metabolites(d, combine=op[3])
    elif k == "sub_mets":
        r = S.rxn(op[1])
        d = {S.metkey(spec): c for spec, c in op[2]}
        r.subtract_metabolites(d)
    elif k == "iadd":
        r = S.rxn(op[1])
        r += S.rxn(op[2])
    elif k == "isub":
        r = S.rxn(op[1])
        r -= S.rxn(op[2])
    elif k == "imul":
        r = S.rxn(op[1])
        r *= op[2]
    elif k == "set_reaction":
        S.rxn(op[1]).build_reaction_from_string(op[2], verbose=False)
    elif k == "rule":
        S.rxn(op[1]).gene_reaction_rule = op[2]
    elif k == "gpr":
        S.rxn(op[1]).gpr = GPR.from_string(op[2])
    elif k == "gene_ko":
        S.gene(op[1]).knock_out()
    elif k == "ko_genes":
        for g in op[1]:
            S.gene(g)
        knock_out_model_genes(m, list(op[1]))
    elif k == "add_rxns":
        objs = []
        for n in op[1]:
            o = S.pool[n]
            if getattr(o, "_model", None) is not None:
                raise Disabled(n)  # already part of a model
            objs.append(o)
        m.add_reactions(objs)
    elif k == "remove_rxns":
        items = []
        for kind, rid in op[1]:
            if kind == "obj":
                items.append(S.rxn(rid))
            else:
                items.append(rid)
        objs = [S.rxn(rid) for _, rid in op[1] if rid in m.reactions]
        m.remove_reactions(items, remove_orphans=op[2])
        for o in objs:
            if o.id not in m.reactions:
                S.removed[o.id] = o
    elif k == "remove_from_model":
        o = S.rxn(op[1])
        o.remove_from_model()
        if o.id not in m.reactions:
            S.removed[o.id] = o
    elif k in ("lb_removed", "bounds_removed", "rule_removed"):
        o = S.removed.get(op[1])
        if o is None or getattr(o, "_model", None) is not None:
            raise Disabled(op[1])
        if k == "lb_removed":
            o.lower_bound = op[2]
        elif k == "bounds_removed":
            o.bounds = (op[2], op[3])
        else:
            o.gene_reaction_rule = op[2]
    elif k == "add_back":
        o = S.removed.get(op[1])
        if o is None or getattr(o, "_model", None) is not None or o.id in m.reactions:
            raise Disabled(op[1])
        m.add_reactions([o])
    elif k == "add_model_mets":
        objs = []
        for n in op[1]:
            o = S.pool[n]
            if getattr(o, "_model", None) is not None:
                raise Disabled(n)
            objs.append(o)
        m.add_metabolites(objs)
    elif k == "remove_mets":
        objs = []
        for n in op[1]:
            if n in m.metabolites:
                objs.append(m.metabolites.get_by_id(n))
            elif n in S.pool and getattr(S.pool[n], "_model", None) is None:
                objs.append(S.pool[n])
            else:
                raise Disabled(n)
        m.remove_metabolites(objs, destructive=op[2])
    elif k == "add_boundary":
        m.add_boundary(S.met(op[1]), type=op[2])
    elif k == "add_groups":
        objs = []
        for n in op[1]:
            g = S.pool[n]
            if getattr(g, "_model", None) is not None:
                raise Disabled(n)
            for mem in g.members:
                if getattr(mem, "_model", None) not in (None, m):
                    raise Disabled(n)
            objs.append(g)
        m.add_groups(objs)
    elif k == "remove_groups":
        objs = []
        for n in op[1]:
            if n not in m.groups:
                raise Disabled(n)
            objs.append(m.groups.get_by_id(n))
        m.remove_groups(objs)
    elif k == "remove_genes":
        for g in op[1]:
            S.gene(g)
        remove_genes(m, list(op[1]), remove_reactions=op[2])
    elif k == "rename_genes":
        for old, new in op[1]:
            S.gene(old)
        rename_genes(m, dict(op[1]))
    elif k == "merge":
        m.merge(S.other, prefix_existing=op[2], inplace=True, objective=op[1])
    elif k == "repair":
        m.repair()
    elif k == "set_id":
        if op[1] == "rxn":
            S.rxn(op[2]).id = op[3]
        else:
            S.met(op[2]).id = op[3]
    elif k == "set_gene_id":
        S.gene(op[1]).id = op[2]
    elif k == "objective":
        kind, v = op[1]
        if kind == "id":
            m.objective = v
        elif kind == "obj":
            m.objective = S.rxn(v)
        elif kind == "dict_detached":
            # a dictionary one of whose reactions is not (or no longer) in the model
            d = {}
            for r, c in v:
                if r in m.reactions:
                    d[m.reactions.get_by_id(r)] = c
                elif r in S.pool and getattr(S.pool[r], "_model", None) is None:
                    d[S.pool[r]] = c
                else:
                    raise Disabled(r)
            if all(getattr(r, "_model", None) is not None for r in d):
                raise Disabled("no detached reaction")
            m.objective = d
        else:
            m.objective = {S.rxn(r): c for r, c in v}
    elif k == "obj_coef":
        S.rxn(op[1]).objective_coefficient = op[2]
    elif k == "direction":
        m.objective_direction = op[1]
    elif k == "add_cons_vars":
        name = op[1]
        if name in m.variables:
            raise Disabled(name)
        v = m.problem.Variable(name, lb=0, ub=3)
        c = m.problem.Constraint(v + S.rxn("EX_A").flux_expression, lb=-50, ub=50, name=name + "_c")
        m.add_cons_vars([v, c])
        S.user_cols.add(name)
        S.user_rows.add(name + "_c")
    elif k == "remove_cons_vars":
        name = op[1]
        if name in S.user_cols and name in m.variables:
            m.remove_cons_vars([m.variables[name]])
            S.user_cols.discard(name)
        elif name in S.user_rows and name in m.constraints:
            m.remove_cons_vars([m.constraints[name]])
            S.user_rows.discard(name)
        else:
            raise Disabled(name)
    elif k == "solver":
        m.solver = op[1]
    elif k == "tolerance":
        m.tolerance = op[1]
    elif k == "optimize":
        m.optimize(**({"objective_sense": op[1]} if len(op) > 1 else {}))
    elif k == "slim_optimize":
        m.slim_optimize()
    elif k == "medium":
        for rid, _ in op[1]:
            S.rxn(rid)
        m.medium = dict(op[1])
    elif k == "helper":
        if not S.stack:
            raise Disabled("helpers are only applied inside a context")
        name = op[1]
        if name == "add_pfba":
            from cobra.flux_analysis.parsimonious import add_pfba
            add_pfba(m)
        elif name == "fix_objective":
            from cobra.util.solver import fix_objective_as_constraint
            fix_objective_as_constraint(m)
        elif name == "add_loopless":
            from cobra.flux_analysis.loopless import add_loopless
            if any(abs(b) == INF for r in m.reactions for b in r.bounds):
                # the formulation's big-M is the largest bound: an infinite coefficient makes GLPK abort() the
                # process inside glp_scale_prob on the next solve (sandbox hazard, outside what a rollback can undo)
                raise Disabled("add_loopless on a model with infinite bounds")
            add_loopless(m)
        elif name == "add_moma_linear":
            from cobra.flux_analysis.moma import add_moma
            add_moma(m, linear=True)
        elif name == "add_room_linear":
            from cobra.flux_analysis.room import add_room
            add_room(m, linear=True)
        elif name == "add_lp_feasibility":
            from cobra.util.solver import add_lp_feasibility
            add_lp_feasibility(m)
        else:
            raise AssertionError(op)
    elif k == "h_copy":
        S.replace_model(m.copy())
    elif k == "h_deepcopy":
        S.replace_model(copy.deepcopy(m))
    elif k == "h_pickle":
        S.replace_model(pickle.loads(pickle.dumps(m)))
    elif k in ("h_json", "h_sbml"):
        if S.stack:
            raise Disabled("open context")
        try:
            if k == "h_json":
                from cobra.io import from_json, to_json

                new = from_json(to_json(m))
            else:
                import io

                from cobra.io import read_sbml_model, write_sbml_model

                buf = io.StringIO()
                write_sbml_model(m, buf)
                new = read_sbml_model(buf.getvalue())
            here = m.problem.__name__.split(".")[-1].replace("_interface", "")
            if new.problem.__name__ != m.problem.__name__:
                new.solver = here
        except Exception as exc:   # the route itself fails for this state: judged by C10 / C11
            raise Disabled(f"{k}: {type(exc).__name__}")
        S.replace_model(new)
        S.user_cols, S.user_rows = set(), set()
    elif k == "enter":
        if len(S.stack) >= 3:
            raise Disabled("nesting")
        m.__enter__()
        S.stack.append((set(S.user_cols), set(S.user_rows)))
    elif k in ("exit", "exit_exc"):
        if not S.stack:
            raise Disabled("no context")
        S.user_cols, S.user_rows = S.stack.pop()
        if k == "exit":
            m.__exit__(None, None, None)
        else:
            try:
                raise BlockExit()
            except BlockExit as exc:
                m.__exit__(BlockExit, exc, exc.__traceback__)
    else:
        raise AssertionError(op)


def run_history(S, history, on_step=None):
    """Replay a history on a session. Exceptions of the library are swallowed (they are part of the
    history); Disabled ops are skipped.  on_step(i, op, exc) is called after each op."""
    for i, op in enumerate(history):
        exc = None
        try:
            with warnings.catch_warnings():
                warnings.simplefilter("ignore")
                apply_op(S, op)
        except Disabled:
            exc = "disabled"
        except Exception as e:  # library exception: part of the history
            exc = e
        if S.stack:
            S.trail.append(op)
        else:
            S.trail = []
        if on_step:
            on_step(i, op, exc)
    return S
