"""known_findings.json matching.  The file is committed and never written at run time.

Entry: {"id": "KF-C15-1", "property": "C15", "status": "open"|"fixed",
        "match": {sig-key: value | "re:<regex>" | [alternatives]}, "what": "...",
        "line": "fixed: property=C15 <commit> <what failed>"   (for fixed entries)}
Only open entries suppress; a violation matches when every key of "match" matches its
signature.  Signatures carry operation kind, argument class, violated invariant and the
first differing field - no ids of generated cases, floats or hash-order dependent data.
"""
import json
import os
import re

from . import VERIF_ROOT


def sig_key(sig):
    return json.dumps(sig, sort_keys=True, default=repr)


def _match_value(pat, val):
    if isinstance(pat, list):
        return any(_match_value(p, val) for p in pat)
    if isinstance(pat, str) and pat.startswith("re:"):
        return val is not None and re.search(pat[3:], str(val)) is not None
    return pat == val


class KnownFindings:
    def __init__(self, prop, path=None):
        path = path or os.path.join(VERIF_ROOT, "known_findings.json")
        self.entries = []
        if os.path.exists(path):
            with open(path) as fh:
                data = json.load(fh)
            for e in data.get("findings", []):
                if e.get("property") == prop and e.get("status") == "open":
                    self.entries.append(e)

    def match(self, sig):
        for e in self.entries:
            if all(_match_value(p, sig.get(k)) for k, p in e["match"].items()):
                return e
        return None
