"""Exact oracles for the flux analyses, built on mc.exactlp (shared by C05, C06, C09, C17-C20)."""
import itertools
from fractions import Fraction as F

from . import exactlp
from .exactlp import INFEAS, OPT, UNB, LP, fr, solve


def internal_ids(fba):
    return [r[0] for r in fba.rxns if len(r[1]) > 1]


def boundary_ids(fba):
    return [r[0] for r in fba.rxns if len(r[1]) == 1]


def constrained_lp(fba, fraction=1, pfba_factor=None, closed=()):
    """LP {S v = 0, bounds, c.v >=/<= fraction z*, [sum|v| <= factor T*]}.  -> (lp, info) or (None, reason)."""
    lp, z = fba.with_objective_constraint(fraction, closed=closed)
    if lp is None:
        return None, z
    info = {"z": z}
    if pfba_factor is not None:
        n = len(fba.rxns)
        lpt = lp.copy()
        ts = exactlp.add_abs_sum(lpt, range(n))
        st, T, _ = solve(lpt, {t: 1 for t in ts.values()}, "min")
        if st != OPT:
            return None, "pfba:" + st
        info["T"] = T
        ts = exactlp.add_abs_sum(lp, range(n))
        lp.row({t: 1 for t in ts.values()}, None, fr(pfba_factor) * T)
    return lp, info


def ranges(fba, lp, ids=None):
    out = {}
    for rid in (ids or [r[0] for r in fba.rxns]):
        j = fba.idx[rid]
        lo = solve(lp, {j: 1}, "min")
        hi = solve(lp, {j: 1}, "max")
        out[rid] = (lo[1] if lo[0] == OPT else lo[0], hi[1] if hi[0] == OPT else hi[0])
    return out


# ---- loops -------------------------------------------------------------------------------

def has_conforming_cycle(fba, pattern):
    """pattern: {internal rid: -1/0/+1}.  Is there a non-zero n with S_int n = 0 conforming in sign?"""
    ints = [r for r in fba.rxns if r[0] in pattern]
    lp = LP()
    idx = {}
    for rid, st, _, _ in ints:
        s = pattern[rid]
        idx[rid] = lp.var(0 if s >= 0 else None, 0 if s <= 0 else None, rid) if s != 0 else lp.var(0, 0, rid)
    for m in fba.mets:
        coefs = {idx[rid]: st[m] for rid, st, _, _ in ints if st.get(m)}
        if coefs:
            lp.row(coefs, 0, 0)
    # normalise: sum sigma_i n_i = 1
    lp.row({idx[rid]: pattern[rid] for rid in idx if pattern[rid] != 0}, 1, 1)
    ok, _ = exactlp.feasible(lp)
    return ok


def loopfree_patterns(fba):
    """Maximal sign patterns over the internal reactions that admit no conforming cycle."""
    ints = internal_ids(fba)
    good = []
    for signs in itertools.product((1, -1, 0), repeat=len(ints)):
        pat = dict(zip(ints, signs))
        if not has_conforming_cycle(fba, pat):
            good.append(pat)

    def below(p, q):
        return p is not q and all(p[k] == 0 or p[k] == q[k] for k in p)

    return [p for p in good if not any(below(p, q) for q in good)]


def restrict_to_pattern(lp, fba, pattern):
    lp = lp.copy()
    for rid, s in pattern.items():
        j = fba.idx[rid]
        lo, hi = lp.lb[j], lp.ub[j]
        if s > 0:
            lo = F(0) if lo is None or lo < 0 else lo
        elif s < 0:
            hi = F(0) if hi is None or hi > 0 else hi
        else:
            lo = F(0) if lo is None or lo < 0 else lo
            hi = F(0) if hi is None or hi > 0 else hi
        lp.lb[j], lp.ub[j] = lo, hi
    return lp


def loopless_ranges(fba, lp, ids=None, patterns=None):
    """Extremes over the union of loop-free cells. Returns None if no loop-free point exists."""
    patterns = patterns if patterns is not None else loopfree_patterns(fba)
    ids = ids or [r[0] for r in fba.rxns]
    out = {rid: [None, None] for rid in ids}
    any_feasible = False
    for pat in patterns:
        lpp = restrict_to_pattern(lp, fba, pat)
        ok, _ = exactlp.feasible(lpp)
        if not ok:
            continue
        any_feasible = True
        for rid in ids:
            j = fba.idx[rid]
            lo = solve(lpp, {j: 1}, "min")
            hi = solve(lpp, {j: 1}, "max")
            lov = lo[1] if lo[0] == OPT else UNB
            hiv = hi[1] if hi[0] == OPT else UNB
            cur = out[rid]
            if cur[0] is None or (cur[0] != UNB and (lov == UNB or lov < cur[0])):
                cur[0] = lov
            if cur[1] is None or (cur[1] != UNB and (hiv == UNB or hiv > cur[1])):
                cur[1] = hiv
    if not any_feasible:
        return None
    return {k: tuple(v) for k, v in out.items()}


def loopless_optimum(fba, patterns=None):
    """Largest/smallest objective over loop-free flux distributions: (status, value)."""
    patterns = patterns if patterns is not None else loopfree_patterns(fba)
    best = None
    found = False
    for pat in patterns:
        lpp = restrict_to_pattern(fba.lp(), fba, pat)
        st, z, _ = solve(lpp, fba.cvec(), fba.direction)
        if st == UNB:
            return UNB, None
        if st == OPT:
            found = True
            if best is None or (z > best if fba.direction == "max" else z < best):
                best = z
    return (OPT, best) if found else (INFEAS, None)


# ---- secondary problems -------------------------------------------------------------------

def min_total_flux(fba, fraction=1, closed=(), ids=None):
    """pFBA: minimal sum |v| subject to objective at >= fraction of optimum. -> (status, T, z)"""
    lp, z = fba.with_objective_constraint(fraction, closed=closed)
    if lp is None:
        return z, None, None
    ts = exactlp.add_abs_sum(lp, range(len(fba.rxns)))
    st, T, _ = solve(lp, {t: 1 for t in ts.values()}, "min")
    return st, T, z


def min_distance(fba, ref, closed=()):
    """linear MOMA: minimal sum |v - ref| over feasible v (no objective constraint). -> (status, D, lp_with_t, ts)"""
    lp = fba.lp(closed)
    refv = {fba.idx[r]: fr(v) for r, v in ref.items()}
    js = sorted(refv)
    ts = exactlp.add_abs_sum(lp, js, ref=refv)
    st, D, x = solve(lp, {t: 1 for t in ts.values()}, "min")
    return st, D, lp, ts
