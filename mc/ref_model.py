"""Executable reference description of the documented semantics of the bench operations
(DESIGN Appendix B), as pure functions on the unordered Python view of observe.python_view.

expected(pre, op, pool) returns
    None                      no reference for this operation (only invariants apply)
    {"raise": True}           documented failure: must raise and leave the view unchanged
    {"view": v}               expected post view; the marker ANY stands for an aspect the
                              documentation leaves open (skipped by the comparison)
Everything an operation's documentation does not mention is expected to be unchanged.
"""
import copy

from . import ref_gpr

ANY = "<any>"
DEFAULT_LB, DEFAULT_UB = -1000, 1000


def _n(x):
    from .observe import _num

    return _num(x)


def _f(x):
    if x == "inf":
        return float("inf")
    if x == "-inf":
        return float("-inf")
    return x


def _link_met(v, rid, mid, on):
    lst = set(v["metabolites"][mid]["reactions"])
    (lst.add if on else lst.discard)(rid)
    v["metabolites"][mid]["reactions"] = sorted(lst)


def _link_gene(v, rid, gid, on):
    lst = set(v["genes"][gid]["reactions"])
    (lst.add if on else lst.discard)(rid)
    v["genes"][gid]["reactions"] = sorted(lst)


def _new_met(v, mid, template=None):
    m = {"id": mid, "name": ANY, "formula": ANY, "charge": ANY, "compartment": ANY,
         "reactions": [], "notes": ANY, "annotation": ANY, "has_model": True}
    if template:
        for k in ("name", "formula", "charge", "compartment", "notes", "annotation"):
            m[k] = template[k]
    v["metabolites"][mid] = m
    comp = m["compartment"]
    if comp is not ANY and comp is not None and comp not in v["compartments"]:
        # the model may remember a name for a compartment that had become empty: not documented
        if v["compartments"] is not ANY:
            v["compartments"][comp] = ANY
    elif comp is ANY:
        v["compartments"] = ANY


def _new_gene(v, gid):
    v["genes"][gid] = {"id": gid, "name": ANY, "functional": True, "reactions": [],
                       "notes": {}, "annotation": {}, "has_model": True}


def _set_rule(v, rid, gene_ids, table, text=ANY):
    """Reaction rid gets a rule with the given genes/table; genes new to the model join it;
    genes no longer in the rule lose the reaction but stay in the model."""
    r = v["reactions"][rid]
    old = set(r["genes"])
    new = set(gene_ids)
    for g in new:
        if g not in v["genes"]:
            _new_gene(v, g)
        _link_gene(v, rid, g, True)
    for g in old - new:
        if g in v["genes"]:
            _link_gene(v, rid, g, False)
    r["genes"] = sorted(new)
    r["rule_genes"] = sorted(new)
    r["table"] = list(table)
    r["rule"] = text


def _knocked(v):
    return {g for g, gv in v["genes"].items() if gv["functional"] is False}


def _apply_stoich(v, rid, updates, combine, pool):
    """updates: list of (metabolite id, coefficient, template view or None)."""
    r = v["reactions"][rid]
    for mid, c, template in updates:
        if mid in r["mets"]:
            r["mets"][mid] = _n(r["mets"][mid] + c) if combine else _n(c)
        else:
            if mid not in v["metabolites"]:
                _new_met(v, mid, template)
            r["mets"][mid] = _n(c)
            _link_met(v, rid, mid, True)
    for mid in [m for m, c in r["mets"].items() if c == 0]:
        del r["mets"][mid]
        _link_met(v, rid, mid, False)


def _remove_reaction(v, rid, remove_orphans):
    r = v["reactions"].pop(rid)
    for mid in r["mets"]:
        if mid in v["metabolites"]:
            _link_met(v, rid, mid, False)
            if remove_orphans and not v["metabolites"][mid]["reactions"]:
                _remove_metabolite_plain(v, mid)
    for gid in r["genes"]:
        if gid in v["genes"]:
            _link_gene(v, rid, gid, False)
            if remove_orphans and not v["genes"][gid]["reactions"]:
                del v["genes"][gid]
                for g in v["groups"].values():
                    g["members"] = [m for m in g["members"] if m != ["Gene", gid]]
    for g in v["groups"].values():
        g["members"] = [m for m in g["members"] if m != ["Reaction", rid]]
    if isinstance(v["objective"]["coefficients"], dict):
        v["objective"]["coefficients"].pop(rid, None)


def _remove_metabolite_plain(v, mid):
    v["metabolites"].pop(mid)
    for g in v["groups"].values():
        g["members"] = [m for m in g["members"] if m != ["Metabolite", mid]]
    _fix_compartments(v)


def _fix_compartments(v):
    if v["compartments"] is ANY:
        return
    used = {m["compartment"] for m in v["metabolites"].values() if m["compartment"] is not None}
    if ANY in used:
        v["compartments"] = ANY
        return
    v["compartments"] = {k: val for k, val in v["compartments"].items() if k in used}


def _parse_equation(text):
    """Independent parser of 'A + 2 X --> B' style equations: (coefficients, (lb, ub))."""
    for arrow, bounds in (("<=>", (DEFAULT_LB, DEFAULT_UB)), ("-->", (0, DEFAULT_UB)),
                          ("<--", (DEFAULT_LB, 0))):
        if arrow in text:
            left, right = text.split(arrow)
            break
    else:
        return None, None
    coefs = {}
    for side, sign in ((left, -1), (right, 1)):
        for term in side.split("+"):
            term = term.strip()
            if not term:
                continue
            if " " in term:
                num, mid = term.split()
                c = float(num) * sign
            else:
                mid, c = term, sign
            coefs[mid] = coefs.get(mid, 0) + c
    return coefs, bounds


def expected(pre, op, pool):
    """pre: unordered view (deep-copied here); pool: {name: view of the detached object}."""
    v = copy.deepcopy(pre)
    k = op[0]
    R = v["reactions"]
    M = v["metabolites"]
    G = v["genes"]

    def need(cond):
        if not cond:
            raise KeyError("disabled")

    if k in ("lb", "ub", "bounds", "knock_out"):
        r = R[op[1]]
        lb, ub = _f(r["lb"]), _f(r["ub"])
        if k == "lb":
            lb = op[2]
        elif k == "ub":
            ub = op[2]
        elif k == "bounds":
            lb, ub = op[2], op[3]
        else:
            lb, ub = 0, 0
        if lb > ub:
            return {"raise": True}
        r["lb"], r["ub"] = _n(lb), _n(ub)
        return {"view": v}

    if k in ("add_mets", "sub_mets"):
        rid = op[1]
        combine = op[3] if k == "add_mets" else True
        sign = 1 if k == "add_mets" else -1
        updates = []
        for (kind, mid), c in op[2]:
            if kind == "id" and mid not in M:
                return {"raise": True}
            if mid not in M and " " in mid:
                return {"raise": True}   # a new metabolite whose id the solver interface refuses; nothing may change
            template = None
            if mid not in M:
                template = pool.get("met:" + mid)
            updates.append((mid, sign * c, template))
        _apply_stoich(v, rid, updates, combine, pool)
        return {"view": v}

    if k in ("iadd", "isub"):
        a, b = R[op[1]], pre["reactions"][op[2]]
        sign = 1 if k == "iadd" else -1
        _apply_stoich(v, op[1], [(mid, sign * c, None) for mid, c in b["mets"].items()], True, pool)
        if k == "iadd":
            if a["rule_genes"] and b["rule_genes"]:
                ids, tab = ref_gpr.and_tables(a["rule_genes"], a["table"], b["rule_genes"], b["table"])
                _set_rule(v, op[1], ids, tab)
            elif b["rule_genes"]:
                _set_rule(v, op[1], b["rule_genes"], b["table"])
        return {"view": v}

    if k == "imul":
        r = R[op[1]]
        c = op[2]
        r["mets"] = {m: _n(x * c) for m, x in r["mets"].items()}
        if c < 0:
            lb, ub = _f(r["lb"]), _f(r["ub"])
            r["lb"], r["ub"] = _n(-ub), _n(-lb)
        return {"view": v}

    if k == "set_reaction":
        coefs, bounds = _parse_equation(op[2])
        if coefs is None:
            return {"raise": True}
        rid = op[1]
        r = R[rid]
        for mid in list(r["mets"]):
            _link_met(v, rid, mid, False)
        r["mets"] = {}
        r["lb"], r["ub"] = bounds
        _apply_stoich(v, rid, [(m, c, None) for m, c in coefs.items()], True, pool)
        return {"view": v}

    if k in ("rule", "gpr"):
        try:
            tree = ref_gpr.parse(op[2])
        except ValueError:
            tree = None  # malformed text: warning, rule becomes empty
        text = op[2].strip() if tree is not None else ""
        _set_rule(v, op[1], ref_gpr.genes(tree), ref_gpr.table(tree), ANY)
        return {"view": v}

    if k in ("gene_ko", "ko_genes"):
        gids = [op[1]] if k == "gene_ko" else list(op[1])
        for gid in gids:
            G[gid]["functional"] = False
            knocked = _knocked(v)
            for rid in G[gid]["reactions"]:
                r = R[rid]
                if not ref_gpr.table_lookup(r["rule_genes"], r["table"], knocked):
                    r["lb"], r["ub"] = 0, 0
        return {"view": v}

    if k == "add_back":
        return expected(pre, ("add_rxns", ("@" + op[1],)), pool)

    if k == "add_rxns":
        names = list(op[1])
        ids = [pool["rxn:" + n]["id"] for n in names]
        fresh = [n for n in names if pool["rxn:" + n]["id"] not in R]
        fresh_ids = [pool["rxn:" + n]["id"] for n in fresh]
        if len(set(fresh_ids)) != len(fresh_ids):
            return {"raise": True}
        for n in fresh:
            # an identifier (of the reaction or of a metabolite it brings along) that the solver interface refuses:
            # the call raises and nothing may change
            if " " in pool["rxn:" + n]["id"] or any(" " in m and m not in M for m in pool["rxn:" + n]["mets"]):
                return {"raise": True}
        for n in fresh:
            pv = copy.deepcopy(pool["rxn:" + n])
            rid = pv["id"]
            pv["has_model"] = True
            mets = pv["mets"]
            pv["mets"] = {}
            genes_, table_ = pv["rule_genes"], pv["table"]
            pv["genes"], pv["rule_genes"] = [], []
            R[rid] = pv
            _apply_stoich(v, rid, [(m, c, pool.get("rxnmet:%s:%s" % (n, m))) for m, c in mets.items()],
                          True, pool)
            _set_rule(v, rid, genes_, table_, pv["rule"])
        return {"view": v}

    if k in ("remove_rxns", "remove_from_model"):
        if k == "remove_from_model":
            items, orphans = [op[1]], False
        else:
            items, orphans = [rid for _, rid in op[1]], op[2]
        for rid in items:
            if rid in R:
                _remove_reaction(v, rid, orphans)
        return {"view": v}

    if k == "add_model_mets":
        if len(set(op[1])) < len(op[1]):
            return None     # the same object twice in one call: undocumented (the invariants still apply afterwards)
        if any(" " in pool["met:" + n]["id"] and pool["met:" + n]["id"] not in M for n in op[1]):
            return {"raise": True}   # refused by the solver interface; nothing may change
        for n in op[1]:
            pv = pool["met:" + n]
            if pv["id"] not in M:
                _new_met(v, pv["id"], pv)
        return {"view": v}

    if k == "remove_mets":
        for mid in op[1]:
            if mid not in M:
                continue
            if op[2]:
                for rid in list(M[mid]["reactions"]):
                    _remove_reaction(v, rid, False)
            else:
                for rid in list(M[mid]["reactions"]):
                    R[rid]["mets"].pop(mid, None)
            _remove_metabolite_plain(v, mid)
        return {"view": v}

    if k == "add_boundary":
        mid, typ = op[1], op[2]
        m = M[mid]
        if typ == "exchange" and not any(x["compartment"] == "e" for x in M.values()):
            return None  # which compartment counts as external is a heuristic then: no reference
        if typ == "exchange" and m["compartment"] != "e":
            return {"raise": True}
        if typ not in ("exchange", "demand", "sink"):
            return {"raise": True}
        prefix = {"exchange": "EX", "demand": "DM", "sink": "SK"}[typ]
        rid = f"{prefix}_{mid}"
        if rid in R:
            return {"raise": True}
        lb = 0 if typ == "demand" else DEFAULT_LB
        R[rid] = {"id": rid, "name": ANY, "subsystem": ANY, "lb": lb, "ub": DEFAULT_UB, "mets": {mid: -1},
                  "rule": "", "genes": [], "rule_genes": [], "table": [True], "notes": ANY,
                  "annotation": ANY, "has_model": True}
        _link_met(v, rid, mid, True)
        return {"view": v}

    if k == "add_groups":
        for n in op[1]:
            gv = copy.deepcopy(pool["grp:" + n])
            if gv["id"] in v["groups"]:
                continue
            gv["has_model"] = True
            v["groups"][gv["id"]] = gv
            for kind, mid in gv["members"]:
                if kind == "Reaction" and mid not in R:
                    sub = expected(v, ("add_rxns", (pool["grpmember:%s:%s" % (n, mid)],)), pool)
                    v = sub["view"]
                    R, M, G = v["reactions"], v["metabolites"], v["genes"]
        return {"view": v}

    if k == "remove_groups":
        for n in op[1]:
            v["groups"].pop(n, None)
        return {"view": v}

    if k == "remove_genes":
        removed = set(op[1])
        for gid in removed:
            if gid not in G:
                return {"raise": True}
        for rid in list(R):
            r = R[rid]
            if not r["rule_genes"]:
                continue
            still_true = ref_gpr.table_lookup(r["rule_genes"], r["table"], removed)
            if op[2] and not still_true:
                _remove_reaction(v, rid, False)
                continue
            if not (set(r["rule_genes"]) & removed):
                continue
            if still_true:
                rest, tab = ref_gpr.restrict_table(r["rule_genes"], r["table"], removed)
                # genes that no longer matter may or may not be kept in the text: compare by function
                r["rule"], r["rule_genes"], r["genes"], r["table"] = ANY, ANY, ANY, ("restrict", rest, tab)
            else:
                # kept reaction whose rule became false: the documentation does not say what the rule is
                r["rule"], r["rule_genes"], r["genes"], r["table"] = ANY, ANY, ANY, ANY
        for gid in removed:
            G.pop(gid)
            for g in v["groups"].values():
                g["members"] = [m for m in g["members"] if m != ["Gene", gid]]
        for gv in G.values():
            gv["reactions"] = ANY  # follows from the (function-compared) rules; xref invariants check it
        return {"view": v}

    if k == "rename_genes":
        mapping = dict(op[1])
        for old, new in mapping.items():
            if old not in G:
                continue
            gv = G.pop(old)
            if new in G:
                G[new]["reactions"] = sorted(set(G[new]["reactions"]) | set(gv["reactions"]))
            else:
                gv["id"] = new
                G[new] = gv
            for g in v["groups"].values():
                g["members"] = sorted([[kk, (new if (kk == "Gene" and i == old) else i)] for kk, i in g["members"]])
            for r in R.values():
                if old in r["rule_genes"]:
                    ids = sorted({mapping.get(x, x) for x in r["rule_genes"]})
                    tab = []
                    for ko in ref_gpr.subsets(ids):
                        kset = set(ko)
                        back = {x for x in r["rule_genes"] if mapping.get(x, x) in kset}
                        tab.append(ref_gpr.table_lookup(r["rule_genes"], r["table"], back))
                    r["rule_genes"], r["genes"], r["table"], r["rule"] = ids, ids, tab, ANY
        return {"view": v}

    if k == "merge":
        # left gains copies of right's reactions whose (possibly prefixed) ids are new, with their metabolites and
        # genes; right's reactions whose id exists are ignored (prefixed if a prefix is given); everything else of
        # left is unchanged.  Objective: left / right / sum of both.
        other = pool["other"]
        which, prefix = op[1], op[2]
        added = {}
        for rid, rv in other["reactions"].items():
            new_id = (prefix + rid) if (prefix is not None and rid in pre["reactions"]) else rid
            if new_id in R:
                continue
            nr = copy.deepcopy(rv)
            nr["id"] = new_id
            nr["has_model"] = True
            mets, genes_, table_ = nr["mets"], nr["rule_genes"], nr["table"]
            nr["mets"], nr["genes"], nr["rule_genes"] = {}, [], []
            R[new_id] = nr
            _apply_stoich(v, new_id, [(m, c, other["metabolites"].get(m)) for m, c in mets.items()], True, pool)
            _set_rule(v, new_id, genes_, table_, nr["rule"])
            added[rid] = new_id
        for gid in list(G):
            if gid not in pre["genes"]:
                G[gid]["name"] = ANY
        left = dict(pre["objective"]["coefficients"]) if isinstance(pre["objective"]["coefficients"], dict) else ANY
        right = other["objective"]["coefficients"]
        # right's objective refers to its own variables by name; it is only well defined here when those
        # reactions were added under their own id by this very merge
        right_ok = isinstance(right, dict) and all(added.get(r) == r for r in right)
        if which == "left":
            pass
        elif not right_ok or left is ANY:
            v["objective"]["coefficients"] = ANY
            v["objective"]["direction"] = ANY
        elif which == "right":
            v["objective"]["coefficients"] = dict(right)
            v["objective"]["direction"] = ANY
        else:
            tot = dict(left)
            for r, c in right.items():
                tot[r] = _n(tot.get(r, 0) + c)
            v["objective"]["coefficients"] = {r: c for r, c in tot.items() if c != 0}
            v["objective"]["direction"] = ANY
        return {"view": v}

    if k == "repair":
        return {"view": v}

    if k == "set_id":
        kind, old, new = op[1], op[2], op[3]
        if " " in new:
            return {"raise": True}   # refused by the solver interface; nothing may change
        if kind == "rxn":
            if new in R:
                return {"raise": True}
            r = R.pop(old)
            r["id"] = new
            R[new] = r
            for m in M.values():
                m["reactions"] = sorted(new if x == old else x for x in m["reactions"])
            for g in G.values():
                g["reactions"] = sorted(new if x == old else x for x in g["reactions"])
            for g in v["groups"].values():
                g["members"] = sorted([[kk, (new if (kk == "Reaction" and i == old) else i)] for kk, i in g["members"]])
            co = v["objective"]["coefficients"]
            if isinstance(co, dict) and old in co:
                co[new] = co.pop(old)
        else:
            if new in M:
                return {"raise": True}
            m = M.pop(old)
            m["id"] = new
            M[new] = m
            for r in R.values():
                if old in r["mets"]:
                    r["mets"][new] = r["mets"].pop(old)
            for g in v["groups"].values():
                g["members"] = sorted([[kk, (new if (kk == "Metabolite" and i == old) else i)] for kk, i in g["members"]])
        return {"view": v}

    if k == "objective":
        kind, val = op[1]
        if kind in ("id", "obj"):
            if val not in R:
                return {"raise": True}
            v["objective"]["coefficients"] = {val: 1}
        elif kind == "dict_detached":
            return {"raise": True}   # a reaction that is not in the model cannot be part of its objective
        else:
            v["objective"]["coefficients"] = {r: _n(c) for r, c in val if c != 0}
        return {"view": v}

    if k == "obj_coef":
        co = v["objective"]["coefficients"]
        if op[2] == 0:
            co.pop(op[1], None)
        else:
            co[op[1]] = _n(op[2])
        return {"view": v}

    if k == "direction":
        d = op[1].lower()
        if d.startswith("max"):
            v["objective"]["direction"] = "max"
        elif d.startswith("min"):
            v["objective"]["direction"] = "min"
        else:
            return {"raise": True}
        return {"view": v}

    if k in ("add_cons_vars", "remove_cons_vars", "optimize", "slim_optimize"):
        return {"view": v}

    if k == "solver":
        if op[1] not in ("glpk", "glpk_exact"):
            return {"raise": True}
        v["interface"] = op[1]
        return {"view": v}

    if k == "tolerance":
        v["tolerance"] = op[1]
        return {"view": v}

    if k in ("h_copy", "h_deepcopy", "h_pickle"):
        v["context_depth"] = 0
        return {"view": v}

    if k == "enter":
        v["context_depth"] += 1
        return {"view": v}

    if k == "medium":
        return None
    return None


def resolve_any(exp, act):
    """Copy the actual value wherever the expectation says ANY (so that diff skips it); handle
    the ('restrict', genes, table) marker: actual rule must equal the table as a function."""
    if exp is ANY or exp == ANY:
        return act
    if isinstance(exp, tuple) and exp and exp[0] == "restrict":
        return exp  # handled by compare_tables
    if isinstance(exp, dict) and isinstance(act, dict):
        return {k: (resolve_any(x, act[k]) if k in act else x) for k, x in exp.items()}
    if isinstance(exp, list) and isinstance(act, list) and len(exp) == len(act):
        return [resolve_any(x, y) for x, y in zip(exp, act)]
    return exp


def check_restrict(exp_view, act_view):
    """For reactions carrying a ('restrict', genes, table) expectation compare by function and
    replace the marker by the actual table.  Returns list of problems."""
    problems = []
    for rid, r in exp_view["reactions"].items():
        t = r.get("table")
        if isinstance(t, tuple) and t and t[0] == "restrict":
            _, rest, tab = t
            a = act_view["reactions"].get(rid)
            if a is None:
                continue
            ag = a["rule_genes"]
            if not set(ag) <= set(rest):
                problems.append(f"reaction {rid}: rule still mentions removed genes: {ag}")
            else:
                # compare as functions over 'rest'
                for ko in ref_gpr.subsets(rest):
                    want = ref_gpr.table_lookup(rest, tab, set(ko))
                    got = ref_gpr.table_lookup(ag, a["table"], set(ko) & set(ag))
                    if want != got:
                        problems.append(f"reaction {rid}: rule after gene removal is not equivalent to the "
                                        f"old rule with the genes absent (knocked {ko}: {got} != {want})")
                        break
            r["table"] = a["table"]
    return problems
