"""Worker process: python -m mc.worker <harness> <read_fd> <write_fd>."""
import gc
import importlib
import os
import sys
import traceback
import warnings

from .pool import _recv, _send


def main():
    name, rfd, wfd = sys.argv[1], int(sys.argv[2]), int(sys.argv[3])
    warnings.filterwarnings("ignore")
    import logging

    logging.disable(logging.CRITICAL)
    from . import assert_repo_cobra

    assert_repo_cobra()
    import cobra

    cobra.Configuration().processes = 1
    mod = importlib.import_module("mc.harness." + name)
    while True:
        msg = _recv(rfd, None)
        if msg is None or (isinstance(msg, tuple) and msg and msg[0] == "__shutdown__"):
            break
        try:
            res = mod.run_task(msg)
        except BaseException:
            res = {"internal_error": traceback.format_exc()}
        _send(wfd, res)
        del res, msg
        gc.collect()
    os._exit(0)


if __name__ == "__main__":
    main()
