"""E1: explicit-state breadth-first search over real objects.

A state is the history (tuple of operation descriptors) that reaches it; the harness worker
rebuilds fresh real objects from it (`build`), applies every enabled operation, checks the
oracles and returns the canonical key of each post-state.  The parent deduplicates keys
layer by layer (deterministically: candidates are sorted by (parent index, op index) before
a representative is chosen) until a depth bound or a fixpoint is reached.

Harness worker protocol:  run_task({"kind": "expand", "histories": [...], ...extra})
returns {"succ": [[(op, key, expandable), ...] per history], "violations": [...],
         "stats": {counter: n}}
"""
import collections
import time


def _succ_sig(succ):
    import hashlib

    return hashlib.sha1(repr([(op, key, bool(e)) for op, key, e in succ]).encode()).hexdigest()


def bfs(ctx, pool, roots, max_depth=None, extra=None, batch=8, audit_merged=0,
        max_states=None, timeout=None, progress=True, audit_depth=0):
    """roots: list of (history, key).  Returns dict with states/transitions/layers/etc."""
    extra = extra or {}
    seen = {}
    frontier = []
    for hist, key in roots:
        if key not in seen:
            seen[key] = tuple(hist)
            frontier.append(tuple(hist))
    stats = collections.Counter()
    transitions = 0
    layers = [len(frontier)]
    depth = 0
    closed = False
    capped = False
    merged_samples = []
    succsig = {}   # key -> signature of the representative's successor list (bisimulation audit)
    hist_key = {tuple(h): k for k, h in seen.items()}
    while frontier:
        if max_depth is not None and depth >= max_depth:
            break
        depth += 1
        payloads = []
        for i in range(0, len(frontier), batch):
            p = {"kind": "expand", "histories": frontier[i:i + batch]}
            p.update(extra)
            payloads.append(p)
        results = [None] * len(payloads)
        for i, status, res in pool.imap(payloads, timeout):
            r = ctx.collect(status, res)
            if r is None and status in ("abort", "timeout"):
                # isolate the culprit: rerun one history at a time
                for h in payloads[i]["histories"]:
                    p1 = dict(payloads[i]); p1["histories"] = [h]
                    (st1, res1), = pool.map([p1], timeout)
                    r1 = ctx.collect(st1, res1)
                    if r1 is None and st1 in ("abort", "timeout"):
                        ctx.violation({"kind": st1, "where": "expand"}, {"history": list(h)},
                                      f"worker {st1} while expanding history {h}")
                    elif r1 is not None:
                        results[i] = results[i] or {"succ": [], "stats": {}, "hist": []}
                        results[i]["succ"].extend(r1["succ"])
                        results[i]["hist"].extend([h])
                        for k, v in r1.get("stats", {}).items():
                            stats[k] += v
                continue
            if r is None:
                continue
            r["hist"] = payloads[i]["histories"]
            results[i] = r
            for k, v in r.get("stats", {}).items():
                stats[k] += v
        new_frontier = []
        for r in results:
            if r is None:
                continue
            for hist, succ in zip(r["hist"], r["succ"]):
                if audit_depth and tuple(hist) in hist_key:
                    succsig[hist_key[tuple(hist)]] = _succ_sig(succ)
                for op, key, expandable in succ:
                    transitions += 1
                    if key is None or not expandable:
                        continue
                    if key in seen:
                        if audit_depth and depth <= audit_depth and (not audit_merged or len(merged_samples) < audit_merged):
                            merged_samples.append((tuple(hist) + (op,), key))
                        continue
                    if max_states is not None and len(seen) >= max_states:
                        capped = True
                        continue
                    seen[key] = tuple(hist) + (op,)
                    hist_key[seen[key]] = key
                    new_frontier.append(seen[key])
        frontier = new_frontier
        layers.append(len(frontier))
        if progress:
            print(f"  [bfs] depth {depth}: +{len(frontier)} states, total {len(seen)}, "
                  f"transitions {transitions}, t={time.time() - ctx.t0:.0f}s", flush=True)
        if not frontier:
            closed = True
    audit = {"merged_histories_audited": 0, "mismatches": 0}
    if audit_depth and merged_samples:
        todo = [(h, k) for h, k in merged_samples if k in succsig and len(h) < (max_depth or 10 ** 9)]
        payloads = []
        for i in range(0, len(todo), batch):
            p = {"kind": "expand", "histories": [h for h, _ in todo[i:i + batch]]}
            p.update(extra)
            p["audit"] = True
            payloads.append(p)
        for i, status, res in pool.imap(payloads, timeout):
            if status != "ok" or not isinstance(res, dict) or "succ" not in res:
                continue
            for (h, k), succ in zip(todo[i * batch:(i + 1) * batch], res["succ"]):
                audit["merged_histories_audited"] += 1
                if _succ_sig(succ) != succsig[k]:
                    audit["mismatches"] += 1
                    if audit["mismatches"] <= 5:
                        ctx.internal("bisimulation audit: history %r was merged with %r but their successor lists differ"
                                     % (h, seen[k]))
        if progress:
            print(f"  [bfs] bisimulation audit: {audit}", flush=True)
    return {
        "audit": audit,
        "states": len(seen), "transitions": transitions, "layers": layers,
        "max_depth": depth, "closed": closed and not capped, "capped": capped,
        "stats": dict(stats), "seen": seen, "merged_samples": merged_samples,
    }
