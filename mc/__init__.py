"""Model-checking machinery for cobrapy properties C01-C20 (see /verif/DESIGN.md)."""
import os
import sys

VERIF_ROOT = os.path.dirname(os.path.dirname(os.path.abspath(__file__)))
REPO_SRC = os.environ.get("VERIF_COBRA_SRC", "/repo/src")
PYTHON = "/venv/bin/python"


def assert_repo_cobra():
    """Checks always exercise the working tree named by REPO_SRC (default /repo/src)."""
    import cobra

    here = os.path.realpath(os.path.dirname(cobra.__file__))
    want = os.path.realpath(os.path.join(REPO_SRC, "cobra"))
    if here != want:
        raise RuntimeError(f"cobra imported from {here}, expected {want}")
    return here
