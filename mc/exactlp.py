"""Exact rational LP oracle: bounded-variable two-phase primal simplex over fractions.Fraction
with Bland's rule, plus brute-force basic-solution enumeration used to validate it.

Problem form:  optimise c.x  subject to  rows  lo_i <= a_i.x <= hi_i  and  l_j <= x_j <= u_j,
where any bound may be None (infinite).  `solve` returns (status, value, x) with status in
{"optimal", "infeasible", "unbounded"}; value and x are Fractions.
"""
import itertools
from fractions import Fraction as F

OPT, INFEAS, UNB = "optimal", "infeasible", "unbounded"


def fr(x):
    """Fraction from int/float/str/'inf' markers (None = infinite)."""
    if x is None:
        return None
    if isinstance(x, F):
        return x
    if isinstance(x, float):
        if x == float("inf") or x == float("-inf"):
            return None
        return F(x).limit_denominator(10 ** 9)
    return F(x)


class LP:
    def __init__(self):
        self.lb, self.ub, self.names = [], [], []
        self.rows = []  # (coef dict {j: F}, lo, hi)

    def var(self, lb=0, ub=None, name=None):
        self.lb.append(fr(lb))
        self.ub.append(fr(ub))
        self.names.append(name or "x%d" % len(self.names))
        return len(self.lb) - 1

    def row(self, coefs, lo=0, hi=0):
        c = {j: fr(v) for j, v in coefs.items() if v != 0}
        self.rows.append((c, fr(lo), fr(hi)))
        return len(self.rows) - 1

    def copy(self):
        o = LP()
        o.lb, o.ub, o.names = list(self.lb), list(self.ub), list(self.names)
        o.rows = [(dict(c), lo, hi) for c, lo, hi in self.rows]
        return o

    @property
    def n(self):
        return len(self.lb)


def solve(lp, c, sense="max"):
    """c: dict {j: coef}.  Returns (status, value, x list)."""
    n0 = lp.n
    lb, ub = list(lp.lb), list(lp.ub)
    A = []  # equality rows over all variables: sum a_j x_j = 0
    for coefs, lo, hi in lp.rows:
        if not coefs:
            if (lo is not None and lo > 0) or (hi is not None and hi < 0):
                return INFEAS, None, None
            continue
        if lo is not None and hi is not None and lo > hi:
            return INFEAS, None, None
        row = dict(coefs)
        if lo is not None and hi is not None and lo == hi == 0:
            A.append(row)
        else:
            s = len(lb)
            lb.append(lo)
            ub.append(hi)
            row[s] = F(-1)
            A.append(row)
    for j in range(len(lb)):
        if lb[j] is not None and ub[j] is not None and lb[j] > ub[j]:
            return INFEAS, None, None
    n = len(lb)
    m = len(A)
    cost = [F(0)] * n
    for j, v in c.items():
        cost[j] = fr(v) if sense == "min" else -fr(v)
    # nonbasic start values
    x = [F(0)] * n
    for j in range(n):
        if lb[j] is not None:
            x[j] = lb[j]
        elif ub[j] is not None:
            x[j] = ub[j]
    # artificials
    T = []
    basis = []
    tot = n + m
    for i, row in enumerate(A):
        r = -sum(v * x[j] for j, v in row.items())  # residual b - A x with b = 0
        sgn = F(1) if r >= 0 else F(-1)
        t = [F(0)] * tot
        for j, v in row.items():
            t[j] = v * sgn
        t[n + i] = F(1)
        T.append(t)
        basis.append(n + i)
        x.append(abs(r))
    lbt = lb + [F(0)] * m
    ubt = ub + [None] * m

    def iterate(cvec, allowed):
        while True:
            cb = [cvec[b] for b in basis]
            enter, direction = None, 0
            inb = set(basis)
            for j in range(tot):
                if j in inb or not allowed(j):
                    continue
                d = cvec[j]
                for i in range(m):
                    if cb[i] != 0 and T[i][j] != 0:
                        d -= cb[i] * T[i][j]
                if d == 0:
                    continue
                if lbt[j] is not None and ubt[j] is not None and lbt[j] == ubt[j]:
                    continue  # fixed variable
                can_inc = ubt[j] is None or x[j] < ubt[j]
                can_dec = lbt[j] is None or x[j] > lbt[j]
                if d < 0 and can_inc:
                    enter, direction = j, 1
                    break
                if d > 0 and can_dec:
                    enter, direction = j, -1
                    break
            if enter is None:
                return OPT
            j = enter
            # ratio test
            best_t, leave, leave_to = None, None, None
            if direction == 1 and ubt[j] is not None:
                best_t, leave, leave_to = ubt[j] - x[j], -1, None
            elif direction == -1 and lbt[j] is not None:
                best_t, leave, leave_to = x[j] - lbt[j], -1, None
            for i in range(m):
                a = T[i][j]
                if a == 0:
                    continue
                b = basis[i]
                delta = -direction * a  # change of basic var per unit t
                if delta < 0:
                    if lbt[b] is None:
                        continue
                    t = (x[b] - lbt[b]) / (-delta)
                    to = lbt[b]
                else:
                    if ubt[b] is None:
                        continue
                    t = (ubt[b] - x[b]) / delta
                    to = ubt[b]
                if best_t is None or t < best_t or (t == best_t and leave != -1 and b < basis[leave]) or \
                        (t == best_t and leave == -1 and False):
                    best_t, leave, leave_to = t, i, to
            if best_t is None:
                return UNB
            # move
            for i in range(m):
                if T[i][j] != 0:
                    x[basis[i]] += -direction * T[i][j] * best_t
            x[j] += direction * best_t
            if leave == -1:
                continue  # bound flip
            x[basis[leave]] = leave_to
            piv = T[leave][j]
            rowl = [v / piv for v in T[leave]]
            T[leave] = rowl
            for i in range(m):
                if i != leave and T[i][j] != 0:
                    f = T[i][j]
                    Ti = T[i]
                    T[i] = [a - f * b if b != 0 else a for a, b in zip(Ti, rowl)]
            basis[leave] = j

    # phase 1
    c1 = [F(0)] * n + [F(1)] * m
    iterate(c1, lambda j: True)
    if sum(x[n:]) != 0:
        return INFEAS, None, None
    for i in range(m):
        ubt[n + i] = F(0)
    # phase 2
    c2 = cost + [F(0)] * m
    st = iterate(c2, lambda j: j < n)
    if st == UNB:
        return UNB, None, None
    val = sum(cost[j] * x[j] for j in range(n))
    if sense == "max":
        val = -val
    return OPT, val, x[:n0]


def feasible(lp):
    st, _, x = solve(lp, {}, "max")
    return st == OPT, x


# ----------------------------------------------------------------------------------------
# brute force validation

def _solve_square(M, rhs):
    n = len(M)
    M = [list(r) + [b] for r, b in zip(M, rhs)]
    for col in range(n):
        p = None
        for r in range(col, n):
            if M[r][col] != 0:
                p = r
                break
        if p is None:
            return None
        M[col], M[p] = M[p], M[col]
        pv = M[col][col]
        M[col] = [v / pv for v in M[col]]
        for r in range(n):
            if r != col and M[r][col] != 0:
                f = M[r][col]
                M[r] = [a - f * b for a, b in zip(M[r], M[col])]
    return [M[i][n] for i in range(n)]


def brute(lp, c, sense="max"):
    """Brute-force LP for tiny instances: enumerate basic solutions (vertices) and extreme rays.

    Only used for validation: requires every variable to have at least one finite bound or be
    covered by the free-variable split below."""
    # bring to equality form with slacks as in solve()
    lb, ub = list(lp.lb), list(lp.ub)
    A = []
    for coefs, lo, hi in lp.rows:
        row = dict(coefs)
        if not row:
            if (lo is not None and lo > 0) or (hi is not None and hi < 0):
                return INFEAS, None
            continue
        if lo is not None and hi is not None and lo == hi == 0:
            A.append(row)
        else:
            s = len(lb)
            lb.append(lo)
            ub.append(hi)
            row[s] = F(-1)
            A.append(row)
    n, m = len(lb), len(A)
    for j in range(n):
        if lb[j] is not None and ub[j] is not None and lb[j] > ub[j]:
            return INFEAS, None
    cost = [F(0)] * n
    for j, v in c.items():
        cost[j] = fr(v)
    dense = [[row.get(j, F(0)) for j in range(n)] for row in A]
    # rank reduce rows
    rows = []
    for r in dense:
        test = rows + [r]
        if _rank(test) > len(rows):
            rows.append(r)
    m = len(rows)
    best = None
    feasible_found = False
    for basic in itertools.combinations(range(n), m):
        nonbasic = [j for j in range(n) if j not in basic]
        choices = []
        ok = True
        for j in nonbasic:
            opts = [v for v in (lb[j], ub[j]) if v is not None]
            if not opts:
                opts = [F(0)]  # free nonbasic: only 0 can be a vertex-like candidate
            choices.append(sorted(set(opts)))
        for vals in itertools.product(*choices):
            rhs = [-sum(rows[i][j] * v for j, v in zip(nonbasic, vals)) for i in range(m)]
            M = [[rows[i][j] for j in basic] for i in range(m)]
            sol = _solve_square(M, rhs) if m else []
            if sol is None:
                continue
            x = [None] * n
            for j, v in zip(nonbasic, vals):
                x[j] = v
            for j, v in zip(basic, sol):
                x[j] = v
            if any((lb[j] is not None and x[j] < lb[j]) or (ub[j] is not None and x[j] > ub[j]) for j in range(n)):
                continue
            # all rows (including dropped dependent ones) must hold
            if any(sum(r[j] * x[j] for j in range(n)) != 0 for r in dense):
                continue
            feasible_found = True
            val = sum(cost[j] * x[j] for j in range(n))
            if best is None or (val > best if sense == "max" else val < best):
                best = val
    if not feasible_found:
        # feasibility may still hold without a vertex (lines in the polyhedron); decide by simplex-free
        # argument: only used on families where every variable has a finite bound, so no vertex = infeasible
        return INFEAS, None
    # unboundedness: look for an improving ray  A d = 0, d_j >= 0 if lb finite only..., c.d > 0
    if _has_improving_ray(dense, lb, ub, cost, sense):
        return UNB, None
    return OPT, best


def _rank(rows):
    M = [list(r) for r in rows]
    rank = 0
    ncol = len(M[0]) if M else 0
    for col in range(ncol):
        p = None
        for r in range(rank, len(M)):
            if M[r][col] != 0:
                p = r
                break
        if p is None:
            continue
        M[rank], M[p] = M[p], M[rank]
        pv = M[rank][col]
        M[rank] = [v / pv for v in M[rank]]
        for r in range(len(M)):
            if r != rank and M[r][col] != 0:
                f = M[r][col]
                M[r] = [a - f * b for a, b in zip(M[r], M[rank])]
        rank += 1
    return rank


def _has_improving_ray(dense, lb, ub, cost, sense):
    """Exists d with A d = 0, d_j >= 0 where ub infinite only upward..., cost.d improving?
    Decided by enumerating sign-normalised extreme rays through basis enumeration on the
    recession cone {A d = 0, d_j >= 0 if ub_j finite is False..}.  For the tiny validation family we
    use a direct search over rays supported on at most m+1 variables."""
    n = len(lb)
    m = len(dense)
    sgn = 1 if sense == "max" else -1
    for k in range(1, min(n, m + 1) + 1):
        for supp in itertools.combinations(range(n), k):
            # solve A[:,supp] d = 0 with d[supp[0]] = +-1
            for first in (F(1), F(-1)):
                rest = supp[1:]
                # least-squares free: need exact solution; try all square subsystems via rank
                cols = [[r[j] for j in rest] for r in dense]
                rhs = [-r[supp[0]] * first for r in dense]
                sol = _solve_any(cols, rhs)
                if sol is None:
                    continue
                d = {supp[0]: first}
                d.update(dict(zip(rest, sol)))
                if any(v == 0 for v in d.values()):
                    continue
                okdir = True
                for j, v in d.items():
                    if v > 0 and ub[j] is not None:
                        okdir = False
                    if v < 0 and lb[j] is not None:
                        okdir = False
                if not okdir:
                    continue
                if sgn * sum(cost[j] * v for j, v in d.items()) > 0:
                    return True
    return False


def _solve_any(cols, rhs):
    """Solve (possibly non-square) system exactly; unique solution required, else None."""
    m = len(cols)
    k = len(cols[0]) if cols and cols[0] else 0
    M = [list(cols[i]) + [rhs[i]] for i in range(m)]
    rank = 0
    piv = []
    for col in range(k):
        p = None
        for r in range(rank, m):
            if M[r][col] != 0:
                p = r
                break
        if p is None:
            return None  # not unique
        M[rank], M[p] = M[p], M[rank]
        pv = M[rank][col]
        M[rank] = [v / pv for v in M[rank]]
        for r in range(m):
            if r != rank and M[r][col] != 0:
                f = M[r][col]
                M[r] = [a - f * b for a, b in zip(M[r], M[rank])]
        piv.append(col)
        rank += 1
    for r in range(rank, m):
        if M[r][k] != 0:
            return None  # inconsistent
    return [M[i][k] for i in range(k)]


def selftest(limit=None):
    """Simplex vs brute force on all LPs of a tiny family. Returns number of LPs compared."""
    count = 0
    bounds = [(0, 1), (0, None), (-1, 1), (1, 2), (None, 0), (None, None)]
    coefs = [-1, 0, 1, 2]
    for nv in (2, 3):
        for bnds in itertools.product(bounds, repeat=nv):
            for row in itertools.product(coefs, repeat=nv):
                if not any(row):
                    continue
                for rb in ((0, 0), (None, 1), (1, None)):
                    for cvec in (tuple([1] + [0] * (nv - 1)), tuple([1, -1] + [0] * (nv - 2)), tuple([-1] * nv)):
                        if nv == 3 and (count % 7):
                            count += 1
                            continue
                        lp = LP()
                        for lo, hi in bnds:
                            lp.var(lo, hi)
                        lp.row({j: v for j, v in enumerate(row)}, rb[0], rb[1])
                        c = {j: v for j, v in enumerate(cvec)}
                        # brute force needs a finite bound per variable: split free variables
                        lpb, cb = LP(), {}
                        split = {}
                        for j, (lo, hi) in enumerate(bnds):
                            if lo is None and hi is None:
                                split[j] = (lpb.var(0, None), lpb.var(0, None))
                            else:
                                split[j] = (lpb.var(lo, hi),)
                        rb_coefs = {}
                        for j, v in enumerate(row):
                            rb_coefs[split[j][0]] = v
                            if len(split[j]) == 2:
                                rb_coefs[split[j][1]] = -v
                        lpb.row(rb_coefs, rb[0], rb[1])
                        for j, v in c.items():
                            cb[split[j][0]] = v
                            if len(split[j]) == 2:
                                cb[split[j][1]] = -v
                        for sense in ("max", "min"):
                            s1 = solve(lp, c, sense)
                            s2 = brute(lpb, cb, sense)
                            if s1[0] != s2[0] or (s1[0] == OPT and s1[1] != s2[1]):
                                raise AssertionError(("exactlp self-test", bnds, row, rb, cvec, sense, s1[:2], s2))
                        count += 1
                        if limit and count >= limit:
                            return count
    return count


# ----------------------------------------------------------------------------------------
# FBA helpers

class FBA:
    """Net-flux LP of a stoichiometric model given as plain data.

    mets: list of ids; rxns: list of (id, {met: coef}, lb, ub); objective {rid: coef}; direction."""

    def __init__(self, mets, rxns, objective=None, direction="max"):
        self.mets = list(mets)
        self.rxns = list(rxns)
        self.objective = dict(objective or {})
        self.direction = direction
        self.idx = {r[0]: j for j, r in enumerate(self.rxns)}

    def lp(self, closed=()):
        lp = LP()
        for rid, st, lb, ub in self.rxns:
            if rid in closed:
                lp.var(0, 0, rid)
            else:
                lp.var(lb, ub, rid)
        for m in self.mets:
            coefs = {self.idx[rid]: st[m] for rid, st, _, _ in self.rxns if st.get(m)}
            lp.row(coefs, 0, 0)
        return lp

    def cvec(self, objective=None):
        obj = self.objective if objective is None else objective
        return {self.idx[r]: v for r, v in obj.items()}

    def optimum(self, closed=(), objective=None, direction=None):
        return solve(self.lp(closed), self.cvec(objective), direction or self.direction)

    def flux_range(self, rid, lp=None):
        lp = lp or self.lp()
        j = self.idx[rid]
        lo = solve(lp, {j: 1}, "min")
        hi = solve(lp, {j: 1}, "max")
        return lo, hi

    def with_objective_constraint(self, fraction, lp=None, closed=()):
        """LP with  c.v >= fraction*z*  (max)  or  <= (min).  Returns (lp, zstar) or (None, status)."""
        lp = (lp or self.lp(closed)).copy()
        st, z, _ = solve(lp, self.cvec(), self.direction)
        if st != OPT:
            return None, st
        bound = fr(fraction) * z
        if self.direction == "max":
            lp.row(self.cvec(), bound, None)
        else:
            lp.row(self.cvec(), None, bound)
        return lp, z


def add_abs_sum(lp, js, ref=None):
    """Add variables t_j >= |x_j - ref_j| for j in js; returns dict j -> t index (minimise sum t)."""
    out = {}
    for j in js:
        t = lp.var(0, None, "abs_%d" % j)
        r = fr(ref[j]) if ref is not None else F(0)
        # t >= x - r  and  t >= -(x - r):   x - t <= r ;  -x - t <= -r
        lp.row({j: 1, t: -1}, None, r)
        lp.row({j: -1, t: -1}, None, -r)
        out[j] = t
    return out
