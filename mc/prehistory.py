"""Non-initial starting states: operations of the public API that only *read* a model (copies of its parts,
string forms, solves, summaries of its state).  A harness applies them to a freshly built model before the
behaviour it checks, so that every property is also explored from a state in which the library has already
derived, cached or temporarily rewired whatever it derives, caches or rewires on first use."""
import copy
import pickle
import warnings


def observe_everything(model, solve=True):
    """Apply every observer once.  None of them may change what the model means."""
    with warnings.catch_warnings():
        warnings.simplefilter("ignore")
        for r in list(model.reactions):
            r.copy()
            copy.deepcopy(r)
            str(r), repr(r), r.reaction, r.build_reaction_string(use_metabolite_names=True)
            r.check_mass_balance()
            r.functional, r.boundary, r.reversibility, r.compartments
            r.gpr.as_symbolic() if r.gpr is not None and r.gpr.body is not None else None
            r.gpr == r.gpr.copy()
            r.gene_name_reaction_rule
            r.flux_expression, r.forward_variable, r.reverse_variable
            r * 2
        rs = list(model.reactions)
        if len(rs) >= 2:
            rs[0] + rs[-1]
            rs[-1] - rs[0]
        for m in list(model.metabolites):
            m.copy()
            str(m), repr(m), m.constraint, m.elements, m.formula_weight
        for g in list(model.genes):
            g.copy()
            str(g), repr(g)
        for grp in list(model.groups):
            len(grp), str(grp)
        model.exchanges, model.demands, model.sinks, model.boundary, model.compartments
        model.medium
        model.objective.expression, model.objective_direction
        len(model.variables), len(model.constraints)
        pickle.dumps(model)
        model.copy()
        copy.copy(model.reactions), copy.copy(model.metabolites), copy.copy(model.genes)
        if solve:
            try:
                model.slim_optimize()
                sol = model.optimize()
                if sol.status == "optimal":
                    model.summary(solution=sol).to_string()
                    for m in list(model.metabolites)[:2]:
                        m.summary(solution=sol).to_string()
                    for r in list(model.reactions)[:2]:
                        r.summary(solution=sol).to_string()
            except Exception:
                pass
    return model
