"""Independent Boolean gene-rule reference: trees as nested tuples, truth tables by brute force.

tree ::= gene id (str) | ("and", t1, t2, ...) | ("or", t1, t2, ...) | None (empty rule, always true)
"""
import itertools
import re

_TOKEN = re.compile(r"\s*(\(|\)|[^\s()]+)")


def parse(text):
    """Tiny recursive-descent parser for 'and'/'or'/parentheses rules over plain identifiers.

    Python precedence: 'and' binds tighter than 'or'. Raises ValueError if malformed."""
    toks = _TOKEN.findall(text or "")
    if not toks:
        return None
    pos = [0]

    def peek():
        return toks[pos[0]] if pos[0] < len(toks) else None

    def eat():
        t = peek()
        pos[0] += 1
        return t

    def atom():
        t = eat()
        if t == "(":
            e = expr_or()
            if eat() != ")":
                raise ValueError("missing )")
            return e
        if t is None or t in (")", "and", "or", "AND", "OR"):
            raise ValueError("unexpected token %r" % t)
        return t

    def expr_and():
        items = [atom()]
        while peek() in ("and", "AND"):
            eat()
            items.append(atom())
        return items[0] if len(items) == 1 else ("and",) + tuple(items)

    def expr_or():
        items = [expr_and()]
        while peek() in ("or", "OR"):
            eat()
            items.append(expr_and())
        return items[0] if len(items) == 1 else ("or",) + tuple(items)

    e = expr_or()
    if pos[0] != len(toks):
        raise ValueError("trailing tokens")
    return e


def genes(tree):
    if tree is None:
        return set()
    if isinstance(tree, str):
        return {tree}
    out = set()
    for t in tree[1:]:
        out |= genes(t)
    return out


def evaluate(tree, knocked):
    if tree is None:
        return True
    if isinstance(tree, str):
        return tree not in knocked
    if tree[0] == "and":
        return all(evaluate(t, knocked) for t in tree[1:])
    return any(evaluate(t, knocked) for t in tree[1:])


def subsets(ids):
    ids = sorted(ids)
    for k in range(len(ids) + 1):
        for ko in itertools.combinations(ids, k):
            yield ko


def table(tree, over=None):
    """Truth table in the same row order as observe.truth_table (sorted genes, subsets by size)."""
    ids = sorted(genes(tree) if over is None else over)
    return [evaluate(tree, set(ko)) for ko in subsets(ids)]


def table_lookup(gene_ids, tab, knocked):
    """Value of a truth table (as produced by table/observe.truth_table) under a knocked-out set."""
    ids = sorted(gene_ids)
    ko = tuple(g for g in ids if g in knocked)
    for row, key in zip(tab, subsets(ids)):
        if key == ko:
            return row
    raise KeyError(ko)


def restrict_table(gene_ids, tab, removed):
    """Table over the remaining genes of 'tab' with 'removed' genes absent (knocked out)."""
    ids = sorted(gene_ids)
    rest = [g for g in ids if g not in removed]
    out = []
    for ko in subsets(rest):
        out.append(table_lookup(ids, tab, set(ko) | (set(removed) & set(ids))))
    return rest, out


def and_tables(g1, t1, g2, t2):
    ids = sorted(set(g1) | set(g2))
    out = []
    for ko in subsets(ids):
        k = set(ko)
        out.append(table_lookup(g1, t1, k) and table_lookup(g2, t2, k))
    return ids, out


def render(tree, style="and/or", top=True):
    if tree is None:
        return ""
    if isinstance(tree, str):
        return tree
    a, o = {"and/or": (" and ", " or "), "AND/OR": (" AND ", " OR "), "&|": (" & ", " | ")}[style]
    s = (a if tree[0] == "and" else o).join(render(t, style, False) for t in tree[1:])
    return s if top else "(" + s + ")"
