"""Feature-product family of models for the I/O properties C10 / C11 (DESIGN §4 C10).

A model is described by a dict of feature values; `feature_product(k)` enumerates every
assignment with at most k features off their default value (total order)."""
import itertools

INF = float("inf")

FEATURES = {
    # identifier spellings (applied to the first metabolite / reaction / gene / group)
    "met_id": ["A_c", "1A_c", "A.b_c", "A-b_c", "A:b_c", "A/b_c", "M_A_c", "A__46__b_c", "A[c]", "A_c_e", "a(b)_c", "A'b_c",
               "\u03b1-kg_c"],   # a non-ASCII letter
    "rxn_id": ["R1", "1R", "R.1", "R-1", "R:1", "R/1", "R_R1", "R__45__1", "R1[c]", "EX_R1(e)", "R;1", "R1-\u03b2"],
    "gene_id": ["g1", "1g", "g.1", "g-1", "g:1", "b0001", "G_g1", "g__46__1", "if", "g/1",
                # valid SBML identifiers that libsbml's infix parser reads as constants
                "pi", "true", "nan", "lpd\u00c5"],
    "group_id": ["grp1", "1grp", "grp.1", "G_grp1", "g1", "grp-1", "grp\u00e9"],
    "bounds": [(0, 1000), (-1000, 1000), (0, 0), (-INF, INF), (5.5, 20), (-2000, 1000), (0, 3000), (2000, 3000),
               (0, INF), (-1000, -5), (-INF, 0), (1e-7, 0.3333333333333333)],
    "objective": ["one", "none", "two", "noninteger", "min", "negative_min"],
    "rule": ["and", "none", "single", "nested", "or_shared"],
    "groups": ["none", "reactions", "metabolites", "genes", "mixed_kind"],
    # ("structured": values that are not plain text - nested containers, numbers, None; only the dict formats carry
    # them, C10 leaves this value out)
    "notes": ["none", "plain", "rxn_and_model", "structured"],
    "annotation": ["none", "sbo", "string", "list", "gene_and_model", "list_nested_ids",
                   # (qualifier, identifier) pairs, as tuples and as the lists that JSON/YAML turn them into
                   "qualified_tuple", "qualified_list"],
    "names": ["plain", "empty", "formula_charge", "compartment_names", "subsystem"],
}
DEFAULT = {k: v[0] for k, v in FEATURES.items()}


def feature_product(k=2, only=None):
    keys = [f for f in FEATURES if only is None or f in only]
    yield dict(DEFAULT)
    for n in range(1, k + 1):
        for ks in itertools.combinations(keys, n):
            for vals in itertools.product(*[FEATURES[f][1:] for f in ks]):
                d = dict(DEFAULT)
                d.update(dict(zip(ks, vals)))
                yield d


def describe(d):
    return {k: (list(v) if isinstance(v, tuple) else v) for k, v in d.items() if v != DEFAULT[k]}


def build(d):
    """Real cobra model for a feature assignment."""
    from cobra import Metabolite, Model, Reaction
    from cobra.core import Group

    m = Model("io_model")
    m.name = "I/O model"
    A = Metabolite(d["met_id"], name="met A", compartment="c")
    B = Metabolite("B_c", name="met B", compartment="c")
    C = Metabolite("C_e", name="met C", compartment="e")
    r1 = Reaction(d["rxn_id"], name="reaction one", lower_bound=d["bounds"][0], upper_bound=d["bounds"][1])
    r1.add_metabolites({A: -1, B: 1})
    r2 = Reaction("R2", name="reaction two", lower_bound=-1000, upper_bound=1000)
    r2.add_metabolites({B: -2, C: 1.5})
    exa = Reaction("EX_A", name="A exchange", lower_bound=-10, upper_bound=1000)
    exa.add_metabolites({A: -1})
    exc = Reaction("EX_C_e", name="C exchange", lower_bound=0, upper_bound=1000)
    exc.add_metabolites({C: -1})
    g = d["gene_id"]
    rule = {"and": f"{g} and g2", "none": "", "single": g, "nested": f"({g} and g2) or (g3 and {g})",
            "or_shared": f"{g} or g2"}[d["rule"]]
    r1.gene_reaction_rule = rule
    r2.gene_reaction_rule = "g2" if d["rule"] != "none" else ""
    m.add_reactions([r1, r2, exa, exc])
    obj = d["objective"]
    if obj == "one":
        m.objective = {exc: 1}
    elif obj == "none":
        pass
    elif obj == "two":
        m.objective = {exc: 1, r1: 2}
    elif obj == "noninteger":
        m.objective = {exc: 0.5, r2: -1.25}
    elif obj == "min":
        m.objective = {exa: 1}
        m.objective_direction = "min"
    elif obj == "negative_min":
        m.objective = {exc: -1}
        m.objective_direction = "min"
    gr = d["groups"]
    gid = d["group_id"]
    if gr == "reactions":
        m.add_groups([Group(gid, name="group one", members=[r1, r2], kind="partonomy")])
    elif gr == "metabolites":
        m.add_groups([Group(gid, name="group one", members=[A, C], kind="classification")])
    elif gr == "genes" and m.genes:
        m.add_groups([Group(gid, name="group one", members=list(m.genes)[:2], kind="collection")])
    elif gr == "mixed_kind":
        m.add_groups([Group(gid, name="group one", members=[r1], kind="collection"),
                      Group("grp2", name="", members=[B, r2], kind="partonomy")])
    if d["notes"] in ("plain", "rxn_and_model"):
        A.notes = {"note": "some plain text", "other": "more text"}
    if d["notes"] == "structured":
        A.notes = {"z": {"b": 1, "a": None, "c": [None, "x", 2.5]}, "empty": None, "list": [1, None, {"k": None}], "flag": True}
        r1.notes = {"n": None, "score": 3}
        A.annotation = {"custom": [["is", None], "x"], "none": None}
    if d["notes"] == "rxn_and_model":
        r1.notes = {"confidence": "high"}
        m.notes = {"origin": "generated"}
        if m.genes:
            list(m.genes)[0].notes = {"gene note": "x"}
    an = d["annotation"]
    if an == "sbo":
        r1.annotation = {"sbo": "SBO:0000176"}
        exc.annotation = {"sbo": "SBO:0000627"}
    elif an == "string":
        A.annotation = {"kegg.compound": "C00001"}
        r1.annotation = {"ec-code": "1.1.1.1"}
    elif an == "list":
        A.annotation = {"kegg.compound": ["C00001", "C00002"], "chebi": ["CHEBI:15377"]}
        r1.annotation = {"rhea": ["10000", "10001"]}
    elif an == "list_nested_ids":
        # identifiers of one provider that contain each other, three or more identifiers, repeated provider
        A.annotation = {"chebi": ["CHEBI:17234", "CHEBI:1723", "CHEBI:172"], "kegg.compound": ["C00031", "C0003"]}
        r1.annotation = {"ec-code": ["1.1.1.100", "1.1.1.1"], "pubmed": ["1765", "21765"]}
    elif an in ("qualified_tuple", "qualified_list"):
        pair = tuple if an == "qualified_tuple" else list
        A.annotation = {"chebi": [pair(("is", "CHEBI:17234")), pair(("isVersionOf", "CHEBI:4167"))],
                        "kegg.compound": [pair(("is", "C00031"))]}
        r1.annotation = {"rhea": [pair(("is", "15656"))], "ec-code": ["1.1.1.1", pair(("is", "1.1.1.2"))]}
    elif an == "gene_and_model":
        if m.genes:
            list(m.genes)[0].annotation = {"ncbigene": ["12345"]}
        m.annotation = {"taxonomy": ["511145"]}
    nm = d["names"]
    if nm == "empty":
        A.name = ""
        r1.name = ""
    elif nm == "formula_charge":
        A.formula, A.charge = "C6H12O6", 0
        B.formula, B.charge = "C6H11O9P", -2
        C.formula, C.charge = "H", 1
    elif nm == "compartment_names":
        m.compartments = {"c": "cytosol", "e": "extracellular space"}
    elif nm == "subsystem":
        r1.subsystem = "Glycolysis"
        r2.subsystem = "Transport, extracellular"
        for gene in m.genes:
            gene.name = "name of " + gene.id
    return m


def edit_in_place(model):
    """Edits of a model that has been saved before, through attribute setters and in-place container edits that keep
    every existing object (solver objective, rule, notes and annotation dictionaries) alive - whatever a writer has
    remembered about the model at the first save is now stale.  Works on any model with at least two reactions."""
    rs = list(model.reactions)
    r_first, r_last = rs[0], rs[-1]
    # objective edited in place (same solver objective object)
    for r in rs:
        if r.objective_coefficient != 0:
            r.objective_coefficient = 0
            break
    r_first.objective_coefficient = 2.5
    r_last.bounds = (-7, 7.5)
    r_first.name = ((r_first.name or "") + " edited").strip()
    r_first.subsystem = "edited subsystem"
    r_first.annotation["edited"] = "yes"
    r_first.notes["edited note"] = "text"
    m0 = list(model.metabolites)[-1]
    if m0 not in r_first.metabolites:
        r_first.add_metabolites({m0: 3})
    else:
        r_first.add_metabolites({m0: 1})
    m0.formula, m0.charge = "C2H6O", -1
    m0.name = ((m0.name or "") + " edited").strip()
    m0.annotation["edited"] = ["a", "b"]
    if model.genes:
        g0 = list(model.genes)[0]
        g0.name = "edited gene"
        others = [g.id for g in model.genes if g.id != g0.id][:1]
        r_last.gene_reaction_rule = " or ".join([g0.id] + others)
    model.compartments = dict(model.compartments, **{m0.compartment: "edited compartment"}) if m0.compartment else model.compartments
    return model


def content_view(model, with_groups=True):
    """Comparable content of a model for round-trip checks (property C10/C11 attribute lists)."""
    from . import observe

    v = observe.unordered(observe.python_view(model))
    v.pop("context_depth", None)
    v.pop("interface", None)
    v.pop("tolerance", None)
    for r in v["reactions"].values():
        r.pop("rule", None)  # compared as Boolean function (table + genes)
        r.pop("has_model", None)
    for k in ("metabolites", "genes"):
        for x in v[k].values():
            x.pop("has_model", None)
            x.pop("functional", None)
    for gname, gv in v["groups"].items():
        gv.pop("has_model", None)
    if not with_groups:
        v.pop("groups")
    return v


def round15(x):
    if isinstance(x, float):
        return float("%.15g" % x)
    if isinstance(x, dict):
        return {k: round15(v) for k, v in x.items()}
    if isinstance(x, list):
        return [round15(v) for v in x]
    return x
