#!/bin/sh
# Nothing to build: the framework is pure Python run by /venv/bin/python against /repo/src.
# Setup verifies the imports and validates the exact LP oracle against brute-force enumeration.
cd "$(dirname "$0")" || exit 1
mkdir -p out/logs out/replays evidence
PYTHONPATH="$PWD:/repo/src" /venv/bin/python -c "
import mc, cobra, swiglpk, optlang, libsbml
mc.assert_repo_cobra()
from mc import exactlp
n = exactlp.selftest()
print('setup ok: cobra', cobra.__version__, 'from', cobra.__file__, '; exactlp self-test compared', n, 'LPs with brute force')
"
