#!/bin/sh
# Nothing to build: the framework is pure Python run by /venv/bin/python against /repo/src.
cd "$(dirname "$0")" || exit 1
mkdir -p out/logs out/replays evidence
PYTHONPATH="$PWD:/repo/src" /venv/bin/python -c "import mc, cobra, swiglpk, optlang; mc.assert_repo_cobra(); print('setup ok', cobra.__version__)"
