#!/usr/bin/env python3
"""Regenerate MANIFEST.json from the table below (python3 tools/gen_manifest.py)."""
import json
import os

ROOT = os.path.dirname(os.path.dirname(os.path.abspath(__file__)))

# id -> (category, technique, level text, level note, design ref)
CHECKS = {
    "C15": (
        "model_checking",
        "explicit-state closure (BFS to fixpoint) over the real DictList vs. a list reference model",
        "All reachable states of a DictList over a 5-object (thorough: 6-object) universe, one object "
        "sharing an id with another, under every operation instance including every in-range, negative "
        "and out-of-range index and every failing operation; each transition is executed on the real "
        "class and compared with Python list semantics plus id uniqueness; the search closes, so every "
        "history over that universe is covered.",
        "Trusted: CPython list semantics as reference; universe size; the coherence probe uses the public "
        "lookup API plus a white-box comparison of the id table when present.",
        "DESIGN.md §4 C15",
    ),
}


def _mc(tech, text, note, ref):
    return ("model_checking", tech, text, note, ref)


CHECKS.update({
    "C01": _mc("explicit-state BFS over histories of real model edits; state invariant on the raw GLPK problem",
               "All histories of the bench alphabet (~115 public edit operations incl. failing ones, copy/pickle, solver "
               "switch, contexts) up to depth 2 (thorough 3) on a 4-reaction bench model, for glpk and glpk_exact; after every "
               "step the GLPK problem read with glp_get_* must be exactly the FBA problem derived from the Python objects.",
               "Bench-sized models and menu values only; swiglpk reads trusted; states merged by canonical hash with a "
               "non-interference replay audit.", "DESIGN.md §4 C01"),
    "C02": _mc("explicit-state BFS with a lock-step executable reference model of the documented semantics",
               "Same exploration as C01; every transition is compared with mc/ref_model.py (documented effect + frame: "
               "everything else unchanged) and with the cross-reference invariants.",
               "The reference model is hand-written from the docstrings; doc-silent aspects are skipped (ANY).",
               "DESIGN.md §4 C02"),
    "C03": _mc("exhaustive enumeration of context block shapes x operation sequences on real objects",
               "Every block shape (nesting <=2, thorough <=3) x every sequence of <=2 (thorough 3, deviation-bounded) "
               "operations of the reversible alphabet incl. failing operations and analysis helpers, normal and exceptional "
               "exit; snapshot at __enter__ must equal the snapshot after __exit__ (content, cross-references, raw LP).",
               "Bench-sized model; violations are delta-debugged to the operations that matter before bucketing.",
               "DESIGN.md §4 C03"),
    "C12": _mc("exhaustive pair exploration (original, copy) with an aliasing-graph oracle",
               "Every prefix (incl. an open context) x {Model.copy, deepcopy, pickle} x every one-step and reduced two-step "
               "edit sequence applied to either side; equality and object-graph disjointness at copy time, untouched side "
               "unchanged after each step, incl. operations handed an object of the other model; Reaction copy, +, -, *, sum (also "
               "of reactions removed from the model) and Metabolite/Gene copies on every element, edited below the first level.",
               "Bench-sized model; the aliasing walk covers __dict__/list/dict/set/tuple, solver compared by identity and "
               "content.", "DESIGN.md §4 C12"),
    "C04": _mc("bounded exhaustive input family vs. exact rational simplex oracle",
               "All stoichiometric models of family F(3 metabolites, <=3 reactions (thorough 4), coefficient and bounds menus, "
               "<=1 (2) bound deviations) x objective menu x max/min x {glpk, glpk_exact}; status, optimum, feasibility, "
               "dual certificate from the shadow prices, reduced-cost identity, accessors, slim_optimize contract, "
               "Solution snapshot.",
               "Oracle mc/exactlp.py validated against brute-force vertex enumeration at run start; tolerance 1e-6.",
               "DESIGN.md §4 C04"),
    "C05": _mc("bounded exhaustive input family vs. exact LP ranges (loopless: exhaustive sign-pattern enumeration)",
               "Family F x objectives x FVA option variants with <=1 (thorough 2) options off default (fraction, pfba_factor, "
               "loopless, reaction_list); every reported minimum/maximum compared with the exact extreme.",
               "Exact oracle as C04; forced-loop members skipped for loopless; unbounded true ranges only judged when a "
               "finite value is reported.", "DESIGN.md §4 C05"),
})


_FAM = ("Exact oracle mc/exactlp.py (rational simplex validated against brute-force vertex enumeration at run start); "
        "data values limited to the family menus; tolerance 1e-6.")
CHECKS.update({
    "C06": _mc("bounded exhaustive input family x request shapes vs. exact LP on an independently knocked-out copy",
               "Family F with gene-rule assignments (distinct, shared, nested, isozymes) x single/double gene/reaction deletion "
               "requests (None, ids, objects, reversed, equal/disjoint/overlapping lists) x fba / linear moma (reference given or "
               "default) + find_essential_* + knockout accessor; exactly one row per unordered combination with the exact "
               "knocked-out optimum / NaN+status.", _FAM + " Linear MOMA growth must lie in the exact objective range over "
               "minimal-adjustment solutions. processes=1 here; schedules are C14.", "DESIGN.md §4 C06"),
    "C07": _mc("explicit-state closure per rule shape over knock-out states with a truth-table oracle",
               "For every and/or rule tree (<=3 leaves over 3 genes; thorough <=4 over 4) the closure of (knocked genes, knocked "
               "reactions) states under Gene.knock_out, knock_out_model_genes (every subset as ids/objects/indices) and "
               "Reaction.knock_out, plus every context block around one or two operations; bounds, functional flags, solver "
               "columns and returned lists checked after every step.",
               "Independent evaluator mc/ref_gpr.py; states re-established through public setters.", "DESIGN.md §4 C07"),
    "C08": _mc("bounded exhaustive enumeration of expression trees x spellings x identifiers; oracle = the generated tree",
               "All and/or trees up to 4 leaves x 5 spellings, every leaf position x 56 awkward identifiers (all keywords, leading "
               "digits, . - : / quotes =), text/copy/pickle/symbolic/constructor round trips, knock-outs given as set/str/list/tuple, "
               "== implies equivalence pairwise, remove_genes for every gene subset in both modes (the rule a rule was derived from "
               "stays unchanged).", "Mixed &/| with and/or without parentheses and backslash are outside the "
               "property.", "DESIGN.md §4 C08"),
    "C09": _mc("bounded exhaustive input family vs. exact LP / exhaustive binary enumeration of the documented formulation",
               "Feasible family members x objectives x pfba (fractions, objective/reactions forms), linear MOMA, ROOM (MILP by "
               "subset enumeration), linear ROOM x references (FBA, pFBA, default, re-ordered) x knock-out states.",
               _FAM + " Finite bounds; quadratic MOMA not covered (no QP solver).", "DESIGN.md §4 C09"),
    "C10": _mc("bounded exhaustive feature product + corpus; validator, content equality, idempotence, independent libsbml extraction",
               "Feature-product models (ids, bounds, objective, rules, groups, notes, annotations, names) with <=1 feature off "
               "default x {path, handle, string}, all feature pairs, f_replace={}, Configuration bounds; every shipped SBML file; "
               "third-party document shapes (incl. flux bounds left out in non-strict documents; single and all pairs) derived "
               "with libsbml, compared with an independent extraction under log capture and re-read with the document's lists "
               "reversed (same content); 18 legacy level-2 documents (kinetic-law parameters, boundary species); save, edit in place, "
               "save again.", "libsbml reader/validator trusted; numbers compared to 15 significant digits.",
               "DESIGN.md §4 C10"),
    "C11": _mc("bounded exhaustive feature product x formats x options; content equality and idempotence",
               "Feature-product models x {json str/path/handle+pretty, yaml str/path, dict, pickle} x sort on/off x Configuration "
               "bounds; loading must not raise, content equal, second round trip identity, dict not consumed.",
               "gene functional flags/groups are not part of the dict formats (not in the property's list).", "DESIGN.md §4 C11"),
    "C17": _mc("bounded exhaustive input family (members with internal cycles) vs. exact LP cycle-removal test and sign patterns",
               "Family members whose internal reactions have a non-trivial null space x every single-reaction objective x starting "
               "vectors (own FBA solution, every optimal vertex with the cycle loaded) for loopless_solution; add_loopless optimum "
               "vs. brute-force loop-free optimum.", _FAM + " Finite bounds.", "DESIGN.md §4 C17"),
    "C18": _mc("explicit-state closure over medium assignments + bounded exhaustive family vs. exact LP / subset enumeration",
               "All reachable bound states of a bench with export-, import- and reversibly-written exchanges (plus demand and "
               "sink) under all 64 medium assignments, and assignments on the bench reached by every other public route (origins); "
               "minimal_medium on family members (both spellings) x targets x exports x "
               "open_exchanges x minimize_components: None iff infeasible, sufficiency, minimal total import / cardinality.",
               _FAM + " Forced import excluded (property undefined).", "DESIGN.md §4 C18"),
    "C19": _mc("bounded exhaustive input family vs. exact FVA of the flux cone",
               "Family members with bounds including zero (two compartment profiles: all boundary reactions exchanges / one demand "
               "or sink) x reaction_list (None, singles, pairs; ids) x open_exchanges x "
               "objectives (must not matter) for find_blocked_reactions; fastcc returns exactly the non-blocked reactions "
               "unchanged and leaves its input unchanged.", _FAM, "DESIGN.md §4 C19"),
    "C20": _mc("bounded exhaustive input family x solutions x fva forms; recomputation from the Solution passed in",
               "Family members with >=2 boundary reactions (flipped spellings, doubled coefficients) x solutions (default pFBA, "
               "FBA, optimal vertices wrapped in Solution, edited) x fva (None, 0.9, 1.0, frame, wide frame shared by all summaries) x "
               "model/metabolite/reaction summaries, plus shapes with parallel boundary reactions of one metabolite: "
               "membership, side, flux, ranges, totals, percentages, rendering.", _FAM, "DESIGN.md §4 C20"),
})


CHECKS.update({
    "C13": ("model_checking", "exhaustive fault enumeration: choice-point search over injected solver failures (vsolver seam) x analyses x model classes",
            "56 analysis/argument combinations x 13 model classes (feasible, cycle, infeasible, unbounded, zero optimum, empty "
            "objective, two substrates, gap, minimising, genes flagged, tolerance, glpk_exact, objective pinned by the caller) x {outside, inside a user context after an edit}: fault-free run, repeat run, and every single injected "
            "failure of the k-th solver call (raise SolverError / report infeasible / report undefined), thorough: all pairs for "
            "N<=30; ordered snapshot (content, raw LP, solver configuration) before == after; the user's context exit restores "
            "the entry state; repeated calls agree on uniquely defined outputs.",
            "Faults are injected at optlang's public Model.optimize (where cobrapy calls the solver); big-M analyses are not "
            "run on the model with infinite bounds (GLPK aborts on infinite coefficients); parallel paths are C14.",
            "DESIGN.md §4 C13"),
    "C14": _mc("stateless choice-point DFS (deviation-bounded) over schedules of a controlled forked process pool",
               "For FVA (plain/loopless/pfba, requests mixing bounded and unbounded reactions), blocked, essential, single/double "
               "gene/reaction deletion (fba, linear moma, linear room; also on a model where the methods disagree) and "
               "OptGP sampling: processes 2..3 (thorough 4), every permutation of the item list, every chunk->worker assignment "
               "(up to worker symmetry) and delivery order within <=2 (3) deviations from the default schedule, executed on "
               "real fork()ed workers in lock-step; results must equal the processes=1 result and single-item calls; the real "
               "multiprocessing pool is run for conformance.",
               "Pool model: chunks are consecutive slices, a worker runs its chunks in queue order, workers do not talk to the "
               "parent while running; OS-level worker failures not modelled.", "DESIGN.md §4 C14"),
    "C16": _mc("choice-point DFS over the answers of the samplers' random source (vrng seam) with an independent feasibility oracle",
               "5 models (homogeneous with cycle, forced, fixed, user inequality, user equality) x {ACHR, OptGP}: every answer "
               "sequence (all randint values x 5-point uniform menu) to depth 2 and depth 3 (4) within a deviation bound, "
               "alternating reaction/variable space; every point checked against S v = 0, bounds and user constraints of the "
               "original model and against validate(); finite menus of seed/n/thinning/processes/methods exhaustively.",
               "uniform() abstracted to a 5-point menu (bounded abstraction of a continuous walk); documented refusals "
               "('Cannot escape sampling region') are counted, not judged.", "DESIGN.md §4 C16"),
})

NOT_YET = {}

props = [json.loads(l) for l in open(os.path.join(ROOT, "properties.jsonl"))]
checks = []
not_applicable = []
for p in props:
    pid = p["id"]
    if pid in CHECKS:
        cat, tech, text, note, ref = CHECKS[pid]
        checks.append({
            "property_id": pid,
            "quick_cmd": f"./check {pid} quick",
            "thorough_cmd": f"./check {pid} thorough",
            "evidence_file": f"/verif/evidence/{pid}.json",
            "replay_cmd_template": f"./check {pid} --replay {{path}}",
            "engine": "mc",
            "level_claimed": {"category": cat, "text": text, "design_ref": ref},
            "level_note": note,
            "technique": tech,
        })
    else:
        not_applicable.append({
            "property_id": pid,
            "reason": NOT_YET.get(pid, "check not built yet (planned in DESIGN.md §7; model checking applies)"),
        })

manifest = {
    "version": 1,
    "setup_cmd": "./setup.sh",
    "hooks": {
        "guard": "COBRAPY_VERIF",
        "enable": "no source hooks: every seam (process pool class, numpy random source, optlang _optimize) "
                  "is rebound from the harness process; /repo is an editable install, nothing to build",
        "baseline_off_cmd": "cd /repo && /venv/bin/python -m pytest -ra -q -p no:cacheprovider --timeout=900 "
                            "--continue-on-collection-errors",
        "source_commits": [],
        "add_only": True,
    },
    "engines": [{
        "name": "mc",
        "path": "/verif/mc",
        "serves_properties": [c["property_id"] for c in checks],
        "kind_free_text": "hand-written explicit-state / bounded-exhaustive explorer in Python driving the real "
                          "cobrapy objects in crash-isolated worker processes, with executable reference models",
    }],
    "checks": checks,
    "not_applicable": not_applicable,
    "notes": "See DESIGN.md. Fixes to /repo are separate 'fix:' commits listed in known_findings.json.",
}
with open(os.path.join(ROOT, "MANIFEST.json"), "w") as fh:
    json.dump(manifest, fh, indent=1)
    fh.write("\n")
print("checks:", [c["property_id"] for c in checks])
