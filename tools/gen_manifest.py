#!/usr/bin/env python3
"""Regenerate MANIFEST.json from the table below (python3 tools/gen_manifest.py)."""
import json
import os

ROOT = os.path.dirname(os.path.dirname(os.path.abspath(__file__)))

# id -> (category, technique, level text, level note, design ref)
CHECKS = {
    "C15": (
        "model_checking",
        "explicit-state closure (BFS to fixpoint) over the real DictList vs. a list reference model",
        "All reachable states of a DictList over a 5-object (thorough: 6-object) universe, one object "
        "sharing an id with another, under every operation instance including every in-range, negative "
        "and out-of-range index and every failing operation; each transition is executed on the real "
        "class and compared with Python list semantics plus id uniqueness; the search closes, so every "
        "history over that universe is covered.",
        "Trusted: CPython list semantics as reference; universe size; the coherence probe uses the public "
        "lookup API plus a white-box comparison of the id table when present.",
        "DESIGN.md §4 C15",
    ),
}

NOT_YET = {}

props = [json.loads(l) for l in open(os.path.join(ROOT, "properties.jsonl"))]
checks = []
not_applicable = []
for p in props:
    pid = p["id"]
    if pid in CHECKS:
        cat, tech, text, note, ref = CHECKS[pid]
        checks.append({
            "property_id": pid,
            "quick_cmd": f"./check {pid} quick",
            "thorough_cmd": f"./check {pid} thorough",
            "evidence_file": f"/verif/evidence/{pid}.json",
            "replay_cmd_template": f"./check {pid} --replay {{path}}",
            "engine": "mc",
            "level_claimed": {"category": cat, "text": text, "design_ref": ref},
            "level_note": note,
            "technique": tech,
        })
    else:
        not_applicable.append({
            "property_id": pid,
            "reason": NOT_YET.get(pid, "check not built yet (planned in DESIGN.md §7; model checking applies)"),
        })

manifest = {
    "version": 1,
    "setup_cmd": "./setup.sh",
    "hooks": {
        "guard": "COBRAPY_VERIF",
        "enable": "no source hooks: every seam (process pool class, numpy random source, optlang _optimize) "
                  "is rebound from the harness process; /repo is an editable install, nothing to build",
        "baseline_off_cmd": "cd /repo && /venv/bin/python -m pytest -ra -q -p no:cacheprovider --timeout=900 "
                            "--continue-on-collection-errors",
        "source_commits": [],
        "add_only": True,
    },
    "engines": [{
        "name": "mc",
        "path": "/verif/mc",
        "serves_properties": [c["property_id"] for c in checks],
        "kind_free_text": "hand-written explicit-state / bounded-exhaustive explorer in Python driving the real "
                          "cobrapy objects in crash-isolated worker processes, with executable reference models",
    }],
    "checks": checks,
    "not_applicable": not_applicable,
    "notes": "See DESIGN.md. Fixes to /repo are separate 'fix:' commits listed in known_findings.json.",
}
with open(os.path.join(ROOT, "MANIFEST.json"), "w") as fh:
    json.dump(manifest, fh, indent=1)
    fh.write("\n")
print("checks:", [c["property_id"] for c in checks])
