#!/bin/bash
# tools/keep_seed.sh <PROP> <n> <seedname> "<caught-by text>" : copy a confirmed seed into /verif/seeded/<name>
p=$1; n=$2; name=$3; caught=$4
src=/tmp/seedwork/out_$p/$n
dst=/verif/seeded/$name
mkdir -p $dst
cp $src/patch.diff $src/demo.py $dst/
/venv/bin/python - "$src/meta.json" "$dst/meta.json" "$p" "$caught" "/tmp/seedwork/confirm_${p}_${n}.txt" <<'PY'
import json,sys
src,dst,p,caught,conf=sys.argv[1:]
try: m=json.load(open(src))
except Exception: m={}
m["property"]=p
m["confirmed_by_me"]=open(conf).read().strip().splitlines() if __import__("os").path.exists(conf) else []
m["detected_by"]=caught
json.dump(m,open(dst,"w"),indent=1)
PY
echo kept $dst
