#!/bin/bash
# tools/keep_seed_r.sh <round> <P> <n> <name> <detected_by> : copy a confirmed seed into /verif/seeded/<P>r<round>-<name>/
r=$1; P=$2; n=$3; name=$4; det=$5; d=/verif/seeded/${P}r${r}-$name; mkdir -p $d
cp /tmp/seedwork/out${r}_$P/$n/patch.diff /tmp/seedwork/out${r}_$P/$n/demo.py $d/
/venv/bin/python - "$r" "$P" "$n" "$d" "$det" <<'PY'
import json,sys
r,P,n,d,det=sys.argv[1:6]
try: meta=json.load(open(f"/tmp/seedwork/out{r}_{P}/{n}/meta.json"))
except Exception as e: meta={"property":P,"summary":"(agent meta.json unreadable: %r)"%e}
meta["property"]=P; meta["round"]=int(r)
conf=[l.strip() for l in open(f"/tmp/seedwork/confirm{r}_{P}_{n}.txt") if "condarc" not in l and l.strip()]
meta["confirmed_by_me"]=conf[-2:]
meta["detected_by"]=det
json.dump(meta,open(d+"/meta.json","w"),indent=1)
PY
