#!/bin/bash
# tools/confirm_all_r.sh <round> <P> <n>... : confirm the seeds of one agent sequentially in its worktree
r=$1; p=$2; shift 2
for n in "$@"; do /verif/tools/confirm_seed.sh /tmp/seedwork/wt${r}_$p /tmp/seedwork/out${r}_$p/$n > /tmp/seedwork/confirm${r}_${p}_${n}.txt 2>&1; done
