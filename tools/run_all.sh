#!/bin/bash
# tools/run_all.sh [tier] [seed] : run every registered check, print exit code and wall time
tier=${1:-quick}; seed=${2:-0}
cd "$(dirname "$0")/.." && mkdir -p out/logs out/replays
for id in ${IDS:-$(python3 -c "import json;print(' '.join(c['property_id'] for c in json.load(open('MANIFEST.json'))['checks']))")}; do
  t0=$(date +%s)
  VERIF_SEED=$seed timeout 14000 ./check $id $tier > out/logs/run_${id}_${tier}_${seed}.log 2>&1; rc=$?
  t1=$(date +%s)
  echo "$id $tier seed=$seed exit=$rc wall=$((t1-t0))s $(grep -c '^VIOLATION' out/logs/run_${id}_${tier}_${seed}.log) violations $(grep -c '^KNOWN-FINDING' out/logs/run_${id}_${tier}_${seed}.log) known"
done
