#!/bin/bash
p=$1; shift
for n in "$@"; do /verif/tools/confirm_seed.sh /tmp/seedwork/wt2_$p /tmp/seedwork/out2_$p/$n > /tmp/seedwork/confirm2_${p}_${n}.txt 2>&1; done
