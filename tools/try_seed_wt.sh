#!/bin/bash
# tools/try_seed_wt.sh <patch.diff> <ID> [tier] : like try_seed.sh but applies the patch in a private scratch
# worktree (so that a sweep running against /repo is not disturbed) and points the check at it.
patch=$1; id=$2; tier=${3:-quick}
# base commit the patch was written against: <out dir>/BASE, else /tmp/seedwork/BASE, else HEAD
BASE=$(cat "$(dirname "$patch")/../BASE" 2>/dev/null || cat /tmp/seedwork/BASE 2>/dev/null || echo HEAD)
wt=/tmp/seedwork/trywt_$$
git -C /repo worktree add --detach -f $wt $BASE >/dev/null 2>&1 || exit 2
git -C $wt apply "$patch" || { echo "PATCH-DOES-NOT-APPLY"; git -C /repo worktree remove --force $wt; exit 2; }
# fixes committed to /repo after the agents' base commit are carried over (skipped with a note if they do not apply)
if [ "$BASE" != HEAD ] && ! git -C /repo diff --quiet $BASE HEAD -- src; then git -C /repo diff $BASE HEAD -- src | git -C $wt apply 2>/dev/null || echo "NOTE: later fixes do not apply on top of this patch; running on the base commit"; fi
snap=/tmp/seedwork/vsnap_$$; rm -rf $snap; mkdir -p $snap; git -C /verif archive HEAD check mc known_findings.json properties.jsonl | tar -x -C $snap; mkdir -p $snap/out/logs; cd $snap
VERIF_COBRA_SRC=$wt/src VERIF_ALLOW_SRC=1 VERIF_NO_RECHECK=${VERIF_NO_RECHECK:-1} timeout 3000 ./check $id $tier > /tmp/try_seed_${id}_$$.log 2>&1; rc=$?
git -C /repo worktree remove --force $wt; cd /; rm -rf $snap
grep -E "^VIOLATION|signature|^KNOWN|^C[0-9]+ |INTERNAL" /tmp/try_seed_${id}_$$.log | head -${LINES_MAX:-12}
echo "check $id exit=$rc"
