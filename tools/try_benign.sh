#!/bin/bash
# tools/try_benign.sh <patch.diff> <ID> [<ID> ...] : apply a property-PRESERVING change in a private scratch worktree and
# run the named quick checks against it.  Every check must stay silent (exit 0, no VIOLATION line).
# env: W = worker processes per check (default 5), TIER (default quick)
patch=$1; shift
# base commit the patch was written against: <out dir>/BASE, else /tmp/seedwork/BASE, else HEAD
BASE=$(cat "$(dirname "$patch")/../BASE" 2>/dev/null || cat /tmp/seedwork/BASE 2>/dev/null || echo HEAD)
wt=/tmp/seedwork/benwt_$$
git -C /repo worktree add --detach -f $wt $BASE >/dev/null 2>&1 || exit 2
git -C $wt apply "$patch" || { echo "PATCH-DOES-NOT-APPLY $patch"; git -C /repo worktree remove --force $wt; exit 2; }
# fixes committed to /repo after the agents' base commit are carried over (skipped with a note if they do not apply)
if [ "$BASE" != HEAD ] && ! git -C /repo diff --quiet $BASE HEAD -- src; then git -C /repo diff $BASE HEAD -- src | git -C $wt apply 2>/dev/null || echo "NOTE: later fixes do not apply on top of this patch; running on the base commit"; fi
# run from a private snapshot of the committed machinery, so that edits in /verif do not reach a running check
snap=/tmp/seedwork/vsnap_$$; rm -rf $snap; mkdir -p $snap; git -C /verif archive HEAD check mc known_findings.json properties.jsonl | tar -x -C $snap; mkdir -p $snap/out/logs /verif/out/logs; cd $snap
tag=$(echo "$patch" | tr '/' '_' | sed 's/_tmp_seedwork_//; s/_patch.diff//')
for id in "$@"; do
  log=out/logs/benign_${tag}_${id}.log
  VERIF_WORKERS=${W:-5} VERIF_COBRA_SRC=$wt/src VERIF_ALLOW_SRC=1 timeout 3000 ./check $id ${TIER:-quick} > $log 2>&1; rc=$?
  echo "BENIGN $tag $id exit=$rc violations=$(grep -c '^VIOLATION' $log) internal=$(grep -c 'INTERNAL-ERROR\|NONDETERMINISM' $log)"
  [ $rc -ne 0 ] && grep -E "^VIOLATION|signature|INTERNAL|NONDET" $log | head -6
  cp $log /verif/out/logs/ 2>/dev/null
done
git -C /repo worktree remove --force $wt; cd /; rm -rf $snap
