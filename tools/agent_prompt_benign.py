#!/usr/bin/env python3
"""Print the prompt for a sub-agent that writes PROPERTY-PRESERVING changes (false-alarm probes):
property text + worktree only (nothing from /verif)."""
import json, sys, os
pid, wt, out = sys.argv[1], sys.argv[2], sys.argv[3]
extra = sys.argv[4] if len(sys.argv) > 4 else ""
p = [json.loads(l) for l in open(os.path.join(os.path.dirname(__file__), "..", "properties.jsonl")) if json.loads(l)["id"] == pid][0]
print(f"""You are helping to evaluate a verification effort for the Python library cobrapy (opencobra/cobrapy, constraint-based metabolic modelling; LP solving through optlang/GLPK). Somebody has built automatic checkers for the semantic property quoted below. A good checker must stay SILENT on code changes that keep the property true. Your job is to play the role of a developer who makes legitimate, behaviour-preserving changes to the library - the kind that a brittle or over-specified checker would wrongly flag.

You have your own scratch git worktree of the library at {wt} (source in {wt}/src/cobra, tests in {wt}/tests). Work ONLY inside {wt} and {out}. Do not read or touch /repo or /verif. There is no network. Python is /venv/bin/python; to make it import YOUR copy of the library always run with PYTHONPATH={wt}/src (check once with: PYTHONPATH={wt}/src /venv/bin/python -c "import cobra; print(cobra.__file__)" - it must print a path under {wt}). Only the glpk and glpk_exact solver interfaces are installed. Set cobra.Configuration().processes explicitly when you call analyses (the default spawns 15 processes). Always run commands under `timeout`. Never use `git stash` (the stash is shared by all worktrees of this repository and other people use it concurrently): save work with `git diff > file`, restore with `git apply file`.

The semantic property under study:

TITLE: {p['title']}
STATEMENT: {p['statement']}
QUANTIFIED OVER: {p['quantifier']['text']}
RELEVANT FILES: {', '.join(p['anchors']['files'])}

TASK: produce THREE independent source changes to the library (separate patches, different mechanisms), each of which
 (1) KEEPS the property above true for every input / history / schedule (argue this carefully - if in doubt, leave it out),
 (2) still passes the library's existing test suite, run as:
       cd {wt} && PYTHONPATH={wt}/src timeout 1500 /venv/bin/python -m pytest -q -p no:cacheprovider --timeout=900 -x --deselect tests/test_io/test_web/test_load.py tests 2>&1 | tail -5
     (takes ~3 minutes). You MUST actually run the full suite with each patch applied alone and confirm it passes.
 (3) is nevertheless a real, non-trivial change of the code in the RELEVANT FILES that changes something a checker might (wrongly) depend on. Good candidates:
     - renaming / restructuring private helpers, private attributes, module-level private functions, closures (public API unchanged);
     - doing the same work in a different but equally correct order (e.g. order in which solver rows/columns are created, order in which undo actions are registered when the order does not matter, order of internal loops, eager instead of lazy solver updates or the other way round);
     - changing aspects the documentation and the property leave open: order of newly created genes/metabolites in a list, textual spelling of an equivalent gene rule (extra parentheses, operand order of a commutative operator), text of warnings / log messages / exception messages (same exception class), names of auxiliary solver variables/constraints that are removed again before the function returns, numeric representation (numpy float vs python float, int vs float where equal), intermediate caching that is invalidated correctly;
     - replacing an algorithm by an equivalent one (e.g. building a matrix differently, a different but valid LP formulation of the same auxiliary problem with the same optimum, a different traversal that yields the same set);
     - performance refactorings (batching solver updates, avoiding a copy that is provably not needed, using a dict instead of a linear search).
     Avoid pure whitespace/comment/docstring changes - they probe nothing.
{extra}
For each change write, under {out}/1, {out}/2 and {out}/3 respectively:
  - patch.diff : `git -C {wt} diff` of exactly that change against the worktree's HEAD (must apply cleanly with `git apply`);
  - meta.json  : {{"property": "{pid}", "kind": "benign", "summary": "...what was changed...", "why_property_still_holds": "...argument...", "what_a_brittle_checker_might_trip_on": "...", "files": [...], "tests_run": "...the command and its pass/fail tail line..."}}.
Before finishing: make sure each patch was tested ALONE (git -C {wt} checkout -- . between them) and leave the worktree clean (git -C {wt} checkout -- .). Reply with a short summary of the three changes and the test-suite tail lines you observed. If after serious effort you can only produce fewer valid changes, deliver those and say so.""")
