#!/usr/bin/env python3
"""tools/jobq.py [max_jobs] : tiny job queue.  Jobs are shell scripts dropped into /tmp/seedwork/q/new/<name>.job; at most
max_jobs run at a time; stdout+stderr go to /tmp/seedwork/q/done/<name>.out.  `tools/jobq.py add <name> <command...>` enqueues."""
import os, subprocess, sys, time
Q = "/tmp/seedwork/q"
if len(sys.argv) > 1 and sys.argv[1] == "add":
    name, cmd = sys.argv[2], " ".join(sys.argv[3:])
    with open(f"{Q}/new/{name}.job.tmp", "w") as fh:
        fh.write(cmd + "\n")
    os.rename(f"{Q}/new/{name}.job.tmp", f"{Q}/new/{name}.job")
    sys.exit(0)
maxj = int(sys.argv[1]) if len(sys.argv) > 1 else 3
running = {}
while True:
    for name, p in list(running.items()):
        if p.poll() is not None:
            os.rename(f"{Q}/run/{name}.job", f"{Q}/done/{name}.job")
            del running[name]
    try:
        maxj = int(open(f"{Q}/maxjobs").read())
    except Exception:
        pass
    for f in sorted(os.listdir(f"{Q}/new"), key=lambda f: os.path.getmtime(f"{Q}/new/{f}")):
        if len(running) >= maxj or not f.endswith(".job"):
            continue
        name = f[:-4]
        os.rename(f"{Q}/new/{f}", f"{Q}/run/{f}")
        out = open(f"{Q}/done/{name}.out", "w")
        running[name] = subprocess.Popen(["bash", f"{Q}/run/{f}"], stdout=out, stderr=subprocess.STDOUT, cwd="/verif")
    time.sleep(2)
