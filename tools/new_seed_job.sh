#!/bin/bash
# tools/new_seed_job.sh <round> <P> : scratch worktree + out dir + prompt file for a seeding sub-agent of round <round>.
# The prompt lists the mechanisms of the earlier seeds of that property (summaries only) as "already taken".
r=$1; P=$2; wt=/tmp/seedwork/wt${r}_$P; out=/tmp/seedwork/out${r}_$P
mkdir -p $out/1 $out/2; git -C /repo rev-parse HEAD > $out/BASE
git -C /repo worktree add --detach -f $wt HEAD >/dev/null 2>&1
extra=$(/venv/bin/python - "$P" <<'PY'
import json,glob,sys
P=sys.argv[1]; L=[]
for d in sorted(glob.glob(f'/verif/seeded/{P}*')):
    try: m=json.load(open(d+'/meta.json'))
    except Exception: continue
    L.append(" - "+" ".join(str(m.get('summary','')).split())[:260])
print("ALREADY TAKEN - earlier rounds produced the following changes; do NOT reuse these mechanisms or the same functions' same lines, find different ones (other functions, other code paths, other argument shapes, other interactions between features):\n"+"\n".join(L)+"\nThis round, prefer changes whose trigger is a history of 3+ public operations, a model that was produced by an unusual-but-public route (copied, pickled, read from a file, edited and rolled back, solver switched, objects removed and re-added), an interaction of two optional arguments, an exception/fault path, or a rarely used public entry point of the same feature.\n")
PY
)
/venv/bin/python /verif/tools/agent_prompt.py $P $wt $out "$extra" > $out/PROMPT.txt
echo $out/PROMPT.txt
