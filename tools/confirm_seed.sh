#!/bin/bash
# tools/confirm_seed.sh <worktree> <seed dir with patch.diff demo.py>  -> prints CONFIRMED or reason
# Confirms in the scratch worktree: demo passes clean, fails with patch, repo test suite passes with patch.
wt=$1; d=$2
cd "$wt" || exit 2
git checkout -q -- . 
export PYTHONPATH=$wt/src
timeout 600 /venv/bin/python "$d/demo.py" >/dev/null 2>&1; clean=$?
git apply "$d/patch.diff" || { echo "PATCH-DOES-NOT-APPLY"; exit 1; }
timeout 600 /venv/bin/python "$d/demo.py" >/dev/null 2>&1; patched=$?
tail=$(timeout 1800 /venv/bin/python -m pytest -q -p no:cacheprovider --timeout=900 --deselect tests/test_io/test_web/test_load.py tests 2>&1 | grep -E "passed|failed" | tail -1)
git checkout -q -- .
echo "demo_clean_rc=$clean demo_patched_rc=$patched tests: $tail"
if [ $clean -eq 0 ] && [ $patched -ne 0 ] && ! echo "$tail" | grep -qE "[0-9]+ (failed|error)" && echo "$tail" | grep -q passed; then echo CONFIRMED; else echo NOT-CONFIRMED; fi
