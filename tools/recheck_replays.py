#!/venv/bin/python
"""tools/recheck_replays.py <ID> [max_age_minutes]: re-execute stored replay files and report which still violate
(and are not covered by an open known finding)."""
import glob, json, os, subprocess, sys, time
sys.path.insert(0, "/verif")
from mc.findings import KnownFindings, sig_key
pid = sys.argv[1]
age = float(sys.argv[2]) * 60 if len(sys.argv) > 2 else 1e12
known = KnownFindings(pid)
still = gone = kf = 0
for f in sorted(glob.glob(f"/verif/out/replays/{pid}/*.json")):
    if time.time() - os.path.getmtime(f) > age:
        continue
    p = subprocess.run(["/verif/check", pid, "--replay", f, "--json"], capture_output=True, text=True, timeout=900)
    out = None
    for line in p.stdout.splitlines():
        if line.startswith("REPLAY-JSON "):
            out = json.loads(line[12:])
    if not out:
        gone += 1
        continue
    un = [o for o in out if known.match(o["sig"]) is None]
    if un:
        still += 1
        print("STILL", f, json.dumps(un[0]["sig"], sort_keys=True)[:300])
    else:
        kf += 1
print(f"{pid}: no longer violating {gone}, covered by known findings {kf}, still unexplained {still}")
