#!/bin/bash
# tools/process_seed.sh <round> <P> <n> <ID> [<ID>...] : confirm a seed in its scratch worktree (demo clean/patched, repo test
# suite with the patch), then run the named quick checks against it.  Output: /tmp/seedwork/confirm<r>_<P>_<n>.txt, try<r>_<P>_<n>.txt
r=$1; P=$2; n=$3; shift 3
d=/tmp/seedwork/out${r}_$P/$n; wt=/tmp/seedwork/cwt${r}_${P}_$n
git -C /repo worktree add --detach -f $wt $(cat $d/../BASE 2>/dev/null || cat /tmp/seedwork/BASE 2>/dev/null || echo HEAD) >/dev/null 2>&1
/verif/tools/confirm_seed.sh $wt $d > /tmp/seedwork/confirm${r}_${P}_$n.txt 2>&1
git -C /repo worktree remove --force $wt
: > /tmp/seedwork/try${r}_${P}_$n.txt
for id in "$@"; do
  VERIF_WORKERS=${W:-5} /verif/tools/try_seed_wt.sh $d/patch.diff $id quick >> /tmp/seedwork/try${r}_${P}_$n.txt 2>&1
done
echo "SEED $r $P $n: $(tail -1 /tmp/seedwork/confirm${r}_${P}_$n.txt) | $(grep -h 'exit=' /tmp/seedwork/try${r}_${P}_$n.txt | tr '\n' ' ')"
