#!/bin/bash
# tools/try_seed.sh <patch.diff> <ID> [tier]  : apply to /repo, run the check, revert.  Prints exit code.
patch=$1; id=$2; tier=${3:-quick}
cd /repo || exit 2
if [ -n "$(git status --porcelain --untracked-files=no)" ]; then echo "/repo not clean"; exit 2; fi
git apply "$patch" || { echo "PATCH-DOES-NOT-APPLY"; exit 2; }
cd /verif
VERIF_NO_RECHECK=${VERIF_NO_RECHECK:-1} timeout 3000 ./check $id $tier > /tmp/try_seed_$id.log 2>&1; rc=$?
git -C /repo checkout -- .
grep -E "^VIOLATION|signature|^KNOWN|^C[0-9]+ " /tmp/try_seed_$id.log | head -${LINES_MAX:-12}
echo "check $id exit=$rc"
