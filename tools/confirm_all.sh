#!/bin/bash
# tools/confirm_all.sh PROP n1 [n2..] : confirm seeds of one property sequentially (one worktree)
p=$1; shift
for n in "$@"; do /verif/tools/confirm_seed.sh /tmp/seedwork/wt_$p /tmp/seedwork/out_$p/$n > /tmp/seedwork/confirm_${p}_${n}.txt 2>&1; done
