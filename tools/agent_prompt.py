#!/usr/bin/env python3
"""Print the prompt for a seeding sub-agent: property text + worktree only (nothing from /verif)."""
import json, sys, os
pid, wt, out = sys.argv[1], sys.argv[2], sys.argv[3]
extra = sys.argv[4] if len(sys.argv) > 4 else ""
p = [json.loads(l) for l in open(os.path.join(os.path.dirname(__file__), "..", "properties.jsonl")) if json.loads(l)["id"] == pid][0]
print(f"""You are helping to evaluate a verification effort for the Python library cobrapy (opencobra/cobrapy, constraint-based metabolic modelling; LP solving through optlang/GLPK). Your job is to play the role of a developer who introduces a realistic, subtle regression.

You have your own scratch git worktree of the library at {wt} (source in {wt}/src/cobra, tests in {wt}/tests). Work ONLY inside {wt} and {out}. Do not read or touch /repo or /verif. There is no network. Python is /venv/bin/python; to make it import YOUR copy of the library always run with PYTHONPATH={wt}/src (check once with: PYTHONPATH={wt}/src /venv/bin/python -c "import cobra; print(cobra.__file__)" - it must print a path under {wt}). Only the glpk and glpk_exact solver interfaces are installed. Set cobra.Configuration().processes explicitly when you call analyses (the default spawns 15 processes). Always run commands under `timeout`. Never use `git stash` (the stash is shared by all worktrees of this repository and other people use it concurrently): save work with `git diff > file`, restore with `git apply file`.

The semantic property under study:

TITLE: {p['title']}
STATEMENT: {p['statement']}
QUANTIFIED OVER: {p['quantifier']['text']}
RELEVANT FILES: {', '.join(p['anchors']['files'])}

TASK: produce TWO independent source changes to the library (each a separate patch touching different mechanisms/functions), each of which
 (1) breaks the property above (for some input / history / schedule / fault point), 
 (2) still compiles and still passes the library's existing test suite. The suite is run as:
       cd {wt} && PYTHONPATH={wt}/src timeout 1500 /venv/bin/python -m pytest -q -p no:cacheprovider --timeout=900 -x tests 2>&1 | tail -5
     (takes ~3 minutes; tests/test_io/test_web/test_load.py::test_remote_load fails offline even on the clean tree and may be ignored - deselect it with --deselect). You MUST actually run the full suite with each patch applied alone and confirm it passes.
 (3) looks like something a developer could plausibly write (a refactoring slip, a wrong index/sign/cursor, a cached or shared mutable object, an undo action registered in the wrong order or bound to the wrong object, a missed case in a branch, state not reset on one path, ...) - not sabotage such as `if x == 'magic'`.
 (4) needs something specific to manifest - a particular multi-step sequence of operations, an unusual-but-valid input, a particular argument shape, a fault or exception at a particular point, a particular schedule/ordering, or two cooperating sites that each look fine alone - NOT something ordinary single-call use on the bundled models would expose at once. Prefer breakage that shows up already on small models (3-6 reactions) given the right sequence/input, since the effect should not depend on model size.
{extra}
For each change write, under {out}/1 and {out}/2 respectively:
  - patch.diff : `git -C {wt} diff` of exactly that change against the worktree's HEAD (apply cleanly with `git apply`); 
  - demo.py    : a small self-contained program (run as PYTHONPATH=<src> /venv/bin/python demo.py) that exits 0 on the unmodified library and exits non-zero (assertion failure) with the change applied - it should build its own small model in code (or load a bundled one with cobra.io.load_model("textbook") / "mini") and demonstrate the broken property as directly as possible;
  - meta.json  : {{"property": "{pid}", "summary": "...what was changed...", "needs": "...what it needs in order to manifest...", "files": [...], "tests_run": "...the command and its pass/fail tail line..."}}.
Before finishing: make sure each patch was tested ALONE (git -C {wt} checkout -- . between them), that demo.py passes on the clean worktree and fails with the patch, and leave the worktree clean (git -C {wt} checkout -- .). Reply with a short summary of the two changes (what, where, what is needed to trigger) and the test-suite tail lines you observed. If after serious effort you can only produce one valid change, deliver one and say so.""")
